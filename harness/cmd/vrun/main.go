package main

import (
	"verif/harness/ev"
	"verif/harness/props"
)

func main() { ev.Main(props.Flavour) }
