package ref

// LZ4 block format, written from lz4_Block_format.md.

type Status int

const (
	OK               Status = iota // ends after the literals of a sequence whose match nibble is 0
	OKEndsAfterMatch               // input exhausted right after a match: not a well-formed block, but
	// not one of the error classes the properties name; the oracles treat it as "unspecified"
	ErrEmpty       // no token at all
	ErrZeroOffset  // offset field 0
	ErrOffsetRange // offset reaches before the start of dictionary+output
	ErrTruncated   // a length, literal run, offset or match is cut by the end of input
	ErrOverflow    // more output than max
)

func (s Status) String() string {
	return [...]string{"ok", "ok-ends-after-match", "empty", "zero-offset", "offset-range", "truncated", "overflow"}[s]
}

func (s Status) IsError() bool { return s >= ErrEmpty }

// Decode decodes one block. Offsets reaching before the start of the output are resolved
// against the end of dict. max < 0 means unlimited output.
func Decode(src, dict []byte, max int) ([]byte, Status) {
	if len(src) == 0 {
		return nil, ErrEmpty
	}
	out := make([]byte, 0, 64)
	i := 0
	for {
		if i >= len(src) {
			// only reachable right after a match
			return out, OKEndsAfterMatch
		}
		tok := src[i]
		i++
		lit := int(tok >> 4)
		if lit == 15 {
			for {
				if i >= len(src) {
					return out, ErrTruncated
				}
				b := src[i]
				i++
				lit += int(b)
				if b != 255 {
					break
				}
			}
		}
		if lit > len(src)-i {
			return out, ErrTruncated
		}
		if max >= 0 && len(out)+lit > max {
			return out, ErrOverflow
		}
		out = append(out, src[i:i+lit]...)
		i += lit
		ml := int(tok & 15)
		if i == len(src) {
			if ml == 0 {
				return out, OK
			}
			return out, ErrTruncated // token announces a match, input ends
		}
		if len(src)-i < 2 {
			return out, ErrTruncated
		}
		off := int(src[i]) | int(src[i+1])<<8
		i += 2
		if off == 0 {
			return out, ErrZeroOffset
		}
		if ml == 15 {
			for {
				if i >= len(src) {
					return out, ErrTruncated
				}
				b := src[i]
				i++
				ml += int(b)
				if b != 255 {
					break
				}
			}
		}
		ml += 4
		if off > len(out)+len(dict) {
			return out, ErrOffsetRange
		}
		if max >= 0 && len(out)+ml > max {
			return out, ErrOverflow
		}
		// byte-wise forward copy (overlap allowed)
		for k := 0; k < ml; k++ {
			p := len(out) - off
			if p >= 0 {
				out = append(out, out[p])
			} else {
				out = append(out, dict[len(dict)+p])
			}
		}
	}
}

// StrictViolation describes why a block fails the strict reading of the specification.
type StrictViolation string

// ValidateStrict checks the end-of-block rules and offset rules for a block that is
// supposed to decode (without dictionary) to n bytes. It returns "" when the block is
// strictly valid.
func ValidateStrict(block []byte, n int) StrictViolation {
	if len(block) == 0 {
		return "empty block"
	}
	i, pos := 0, 0
	matches := 0
	lastMatchStart := -1
	for {
		if i >= len(block) {
			return "final sequence is not literals-only (block ends after a match)"
		}
		tok := block[i]
		i++
		lit := int(tok >> 4)
		if lit == 15 {
			for {
				if i >= len(block) {
					return "truncated literal length"
				}
				b := block[i]
				i++
				lit += int(b)
				if b != 255 {
					break
				}
			}
		}
		if lit > len(block)-i {
			return "truncated literals"
		}
		i += lit
		pos += lit
		if i == len(block) {
			if tok&15 != 0 {
				return "final token has a non-zero match nibble"
			}
			if pos != n {
				return "decoded size differs from the source size"
			}
			if matches > 0 {
				if n < 13 {
					return "input shorter than 13 bytes contains a match"
				}
				if lit < 5 {
					return "last 5 bytes are not all literals"
				}
				if lastMatchStart > n-12 {
					return "last match starts within the last 12 bytes"
				}
			}
			return ""
		}
		if len(block)-i < 2 {
			return "truncated offset"
		}
		off := int(block[i]) | int(block[i+1])<<8
		i += 2
		if off == 0 {
			return "zero offset"
		}
		if off > pos {
			return "offset reaches before the start of the output"
		}
		ml := int(tok & 15)
		if ml == 15 {
			for {
				if i >= len(block) {
					return "truncated match length"
				}
				b := block[i]
				i++
				ml += int(b)
				if b != 255 {
					break
				}
			}
		}
		ml += 4
		matches++
		lastMatchStart = pos
		pos += ml
		if pos > n {
			return "decoded size exceeds the source size"
		}
	}
}

// ---- encoder side: sequences dictated by the caller -------------------------------------

// Seq is one sequence: literals followed by a match (MLen >= 4), or, for the final
// sequence, literals only (MLen == 0).
type Seq struct {
	Lit  []byte
	Off  int
	MLen int
}

func putLen(dst []byte, n int) []byte {
	for n >= 255 {
		dst = append(dst, 255)
		n -= 255
	}
	return append(dst, byte(n))
}

// EncodeBlock serialises sequences exactly as given (no validity checks: hostile blocks are
// built with it too).
func EncodeBlock(seqs []Seq) []byte {
	var b []byte
	for _, s := range seqs {
		ll := len(s.Lit)
		tok := byte(0)
		if ll >= 15 {
			tok = 0xF0
		} else {
			tok = byte(ll) << 4
		}
		if s.MLen > 0 {
			m := s.MLen - 4
			if m >= 15 {
				tok |= 15
			} else {
				tok |= byte(m)
			}
		}
		b = append(b, tok)
		if ll >= 15 {
			b = putLen(b, ll-15)
		}
		b = append(b, s.Lit...)
		if s.MLen > 0 {
			b = append(b, byte(s.Off), byte(s.Off>>8))
			if s.MLen-4 >= 15 {
				b = putLen(b, s.MLen-4-15)
			}
		}
	}
	return b
}
