// Package ref holds the reference models: slow, obviously structured Go written from the
// format documents. Nothing here shares code with pierrec/lz4.
package ref

// XXH32 with seed 0, written from the xxHash specification (doc/xxhash_spec.md):
// four accumulators fed 4 little-endian bytes each per 16-byte stripe, 64-bit length,
// "large input" decided on the full length (not its low 32 bits).

const (
	xp1 uint32 = 0x9E3779B1
	xp2 uint32 = 0x85EBCA77
	xp3 uint32 = 0xC2B2AE3D
	xp4 uint32 = 0x27D4EB2F
	xp5 uint32 = 0x165667B1
)

func xrotl(x uint32, r uint) uint32 { return x<<r | x>>(32-r) }

func xle32(b []byte) uint32 {
	return uint32(b[0]) | uint32(b[1])<<8 | uint32(b[2])<<16 | uint32(b[3])<<24
}

func xround(acc, lane uint32) uint32 {
	acc += lane * xp2
	acc = xrotl(acc, 13)
	return acc * xp1
}

// XXH is an incremental reference hasher. It keeps the whole tail (<16 bytes) and the
// total length as a uint64.
type XXH struct {
	Acc   [4]uint32
	Total uint64
	Tail  []byte // < 16 bytes not yet consumed
}

func NewXXH() *XXH {
	x := &XXH{}
	x.Reset()
	return x
}

func (x *XXH) Reset() {
	var seed uint32
	x.Acc[0] = seed + xp1 + xp2
	x.Acc[1] = seed + xp2
	x.Acc[2] = seed
	x.Acc[3] = seed - xp1
	x.Total = 0
	x.Tail = x.Tail[:0]
}

// Write consumes bytes one at a time into the tail; a full 16-byte tail is a stripe.
func (x *XXH) Write(p []byte) {
	for _, b := range p {
		x.Tail = append(x.Tail, b)
		x.Total++
		if len(x.Tail) == 16 {
			for i := 0; i < 4; i++ {
				x.Acc[i] = xround(x.Acc[i], xle32(x.Tail[4*i:]))
			}
			x.Tail = x.Tail[:0]
		}
	}
}

// WriteStripes is a faster path for long streams made of whole stripes; it requires an
// empty tail and len(p)%16==0. Same arithmetic as Write.
func (x *XXH) WriteStripes(p []byte) {
	if len(x.Tail) != 0 || len(p)%16 != 0 {
		panic("ref.XXH.WriteStripes: misuse")
	}
	a0, a1, a2, a3 := x.Acc[0], x.Acc[1], x.Acc[2], x.Acc[3]
	for i := 0; i+16 <= len(p); i += 16 {
		a0 = xround(a0, xle32(p[i:]))
		a1 = xround(a1, xle32(p[i+4:]))
		a2 = xround(a2, xle32(p[i+8:]))
		a3 = xround(a3, xle32(p[i+12:]))
	}
	x.Acc = [4]uint32{a0, a1, a2, a3}
	x.Total += uint64(len(p))
}

func (x *XXH) Sum32() uint32 {
	var h uint32
	if x.Total >= 16 {
		h = xrotl(x.Acc[0], 1) + xrotl(x.Acc[1], 7) + xrotl(x.Acc[2], 12) + xrotl(x.Acc[3], 18)
	} else {
		h = x.Acc[2] + xp5 // seed + PRIME32_5
	}
	h += uint32(x.Total) // length modulo 2^32, as the specification says
	t := x.Tail
	for len(t) >= 4 {
		h += xle32(t) * xp3
		h = xrotl(h, 17) * xp4
		t = t[4:]
	}
	for len(t) > 0 {
		h += uint32(t[0]) * xp5
		h = xrotl(h, 11) * xp1
		t = t[1:]
	}
	h ^= h >> 15
	h *= xp2
	h ^= h >> 13
	h *= xp3
	h ^= h >> 16
	return h
}

// XXH32 is the one-shot form.
func XXH32(p []byte) uint32 {
	x := NewXXH()
	x.Write(p)
	return x.Sum32()
}

// ZeroPreimageTail returns 4 bytes w such that XXH32(prefix ‖ w) == 0, for any prefix whose
// length is ≡ 0 (mod 4) after removing whole stripes (so that w is consumed by exactly one
// 4-byte tail step). It inverts the avalanche (0 is a fixed point: avalanche(0)=0, and
// avalanche is a bijection, so the pre-avalanche value must be 0) and the last tail step.
func ZeroPreimageTail(prefix []byte) []byte {
	x := NewXXH()
	x.Write(prefix)
	if len(x.Tail)%4 != 0 || len(x.Tail) > 8 {
		panic("ref.ZeroPreimageTail: prefix length must leave a tail of 0, 4 or 8 bytes")
	}
	total := x.Total + 4
	var h uint32
	if total >= 16 {
		h = xrotl(x.Acc[0], 1) + xrotl(x.Acc[1], 7) + xrotl(x.Acc[2], 12) + xrotl(x.Acc[3], 18)
	} else {
		h = x.Acc[2] + xp5
	}
	h += uint32(total)
	t := x.Tail
	for len(t) >= 4 {
		h += xle32(t) * xp3
		h = xrotl(h, 17) * xp4
		t = t[4:]
	}
	// need: rotl(h + w*xp3, 17) * xp4 == 0  ⇔  h + w*xp3 == 0  ⇔  w = -h * xp3^-1
	inv := modInv32(xp3)
	w := (0 - h) * inv
	return []byte{byte(w), byte(w >> 8), byte(w >> 16), byte(w >> 24)}
}

func modInv32(a uint32) uint32 {
	// Newton iteration for the inverse of an odd number modulo 2^32.
	x := a
	for i := 0; i < 5; i++ {
		x *= 2 - a*x
	}
	return x
}
