package ref

import (
	"errors"
	"fmt"
)

// LZ4 frame format, written from lz4_Frame_format.md (v1.6.x).

const (
	MagicFrame  uint32 = 0x184D2204
	MagicLegacy uint32 = 0x184C2102
	MagicSkipLo uint32 = 0x184D2A50
	MagicSkipHi uint32 = 0x184D2A5F
	LegacyBlock        = 8 << 20
)

type Field struct {
	Kind  string // magic, skip-magic, skip-len, skip-data, flg, bd, csize, dictid, hc, bsize, bdata, bsum, endmark, csum, legacy-trailer
	Off   int
	Len   int
	Block int // block ordinal for bsize/bdata/bsum, else -1
}

type BlockInfo struct {
	Off        int // offset of the size word
	Stored     int
	Raw        bool
	Decoded    int
	HasSum     bool
	EndsAfterM bool
}

type Parsed struct {
	Legacy       bool
	Version      int
	Indep        bool
	BlockSum     bool
	HasSize      bool
	ContentSum   bool
	DictID       bool
	BSCode       int
	ContentSize  uint64
	Content      []byte
	Consumed     int
	Fields       []Field
	Blocks       []BlockInfo
	Skipped      int  // number of skippable frames in front
	LegacyTrail  bool // legacy stream ended with the kernel-style size trailer
	LegacyFrames int
}

// Opts selects which rules are enforced. The zero value is the strict reading.
type Opts struct {
	SumOverDecoded bool // judge block checksums over the decoded bytes (the tree's convention) instead of the stored bytes
	NoVersion      bool // do not enforce version == 01
	NoReserved     bool // do not enforce reserved bits == 0
	NoDecodedMax   bool // do not enforce decoded block size <= block maximum
	NoContentSize  bool // do not enforce content size == decoded length
	AllowEndsMatch bool // accept blocks that end right after a match
	LegacyLoose    bool // legacy: do not require non-final blocks to decode to exactly 8 MiB; accept the kernel size trailer
	AllowTrailing  bool // stop after one frame and report Consumed; otherwise trailing bytes are an error
	IgnoreDictID   bool // treat the dictionary-id flag as an unused bit (what the implementation under test does)
	Prefix         bool // prefix mode: running out of input at a block boundary (before a size word) is not an error
}

var (
	ErrShort = errors.New("ref: truncated")
)

type perr struct {
	what string
	off  int
}

func (e *perr) Error() string { return fmt.Sprintf("ref: %s at offset %d", e.what, e.off) }

func BlockMax(code int) int {
	switch code {
	case 4:
		return 64 << 10
	case 5:
		return 256 << 10
	case 6:
		return 1 << 20
	case 7:
		return 4 << 20
	}
	return 0
}

func le32(b []byte) uint32 {
	return uint32(b[0]) | uint32(b[1])<<8 | uint32(b[2])<<16 | uint32(b[3])<<24
}

func le64(b []byte) uint64 { return uint64(le32(b)) | uint64(le32(b[4:]))<<32 }

// Parse parses skippable frames followed by one LZ4 frame (modern or legacy).
// It returns what it has decoded so far together with the error, so callers can use the
// field map of a truncated input.
func Parse(b []byte, o Opts) (*Parsed, error) {
	p := &Parsed{}
	pos := 0
	need := func(n int, what string) error {
		if len(b)-pos < n {
			return &perr{"truncated " + what, pos}
		}
		return nil
	}
	add := func(kind string, n, blk int) {
		p.Fields = append(p.Fields, Field{kind, pos, n, blk})
		pos += n
	}
	// skippable frames
	var magic uint32
	for {
		if err := need(4, "magic"); err != nil {
			return p, err
		}
		magic = le32(b[pos:])
		if magic >= MagicSkipLo && magic <= MagicSkipHi {
			add("skip-magic", 4, -1)
			if err := need(4, "skippable length"); err != nil {
				return p, err
			}
			n := int(le32(b[pos:]))
			add("skip-len", 4, -1)
			if err := need(n, "skippable data"); err != nil {
				return p, err
			}
			add("skip-data", n, -1)
			p.Skipped++
			continue
		}
		break
	}
	switch magic {
	case MagicFrame:
		add("magic", 4, -1)
	case MagicLegacy:
		add("magic", 4, -1)
		p.Legacy = true
		err := parseLegacy(b, &pos, p, o)
		p.Consumed = pos
		if err == nil && !o.AllowTrailing && pos != len(b) {
			return p, &perr{"trailing bytes", pos}
		}
		return p, err
	default:
		return p, &perr{"bad magic", pos}
	}
	// descriptor
	dstart := pos
	if err := need(2, "FLG/BD"); err != nil {
		return p, err
	}
	flg, bd := b[pos], b[pos+1]
	add("flg", 1, -1)
	add("bd", 1, -1)
	p.Version = int(flg >> 6)
	p.Indep = flg&0x20 != 0
	p.BlockSum = flg&0x10 != 0
	p.HasSize = flg&0x08 != 0
	p.ContentSum = flg&0x04 != 0
	p.DictID = flg&0x01 != 0
	p.BSCode = int(bd>>4) & 7
	if p.HasSize {
		if err := need(8, "content size"); err != nil {
			return p, err
		}
		p.ContentSize = le64(b[pos:])
		add("csize", 8, -1)
	}
	if p.DictID && o.IgnoreDictID {
		p.DictID = false
	}
	if p.DictID {
		if err := need(4, "dictionary id"); err != nil {
			return p, err
		}
		add("dictid", 4, -1)
	}
	if err := need(1, "header checksum"); err != nil {
		return p, err
	}
	hc := b[pos]
	want := byte(XXH32(b[dstart:pos]) >> 8)
	add("hc", 1, -1)
	if hc != want {
		return p, &perr{"header checksum mismatch", pos - 1}
	}
	if !o.NoVersion && p.Version != 1 {
		return p, &perr{"version is not 01", dstart}
	}
	if !o.NoReserved && (flg&0x02 != 0 || bd&0x8F != 0) {
		return p, &perr{"reserved bits set", dstart}
	}
	bmax := BlockMax(p.BSCode)
	if bmax == 0 {
		return p, &perr{"undefined block maximum size code", dstart + 1}
	}
	if p.DictID {
		return p, &perr{"dictionary id not supported by this reference (no dictionary supplied)", dstart}
	}
	content := NewXXH()
	for blk := 0; ; blk++ {
		if o.Prefix && pos == len(b) {
			p.Consumed = pos
			return p, nil
		}
		if err := need(4, "block size"); err != nil {
			return p, err
		}
		w := le32(b[pos:])
		if w == 0 {
			add("endmark", 4, -1)
			break
		}
		bi := BlockInfo{Off: pos, Stored: int(w & 0x7FFFFFFF), Raw: w>>31 != 0, HasSum: p.BlockSum}
		add("bsize", 4, blk)
		if bi.Stored > bmax {
			return p, &perr{"block larger than the block maximum", pos - 4}
		}
		if err := need(bi.Stored, "block data"); err != nil {
			return p, err
		}
		stored := b[pos : pos+bi.Stored]
		add("bdata", bi.Stored, blk)
		var sum uint32
		if p.BlockSum {
			if err := need(4, "block checksum"); err != nil {
				return p, err
			}
			sum = le32(b[pos:])
			add("bsum", 4, blk)
		}
		var dec []byte
		if bi.Raw {
			dec = stored
		} else {
			var dict []byte
			if !p.Indep {
				dict = p.Content
				if len(dict) > 65536 {
					dict = dict[len(dict)-65536:]
				}
			}
			max := bmax
			if o.NoDecodedMax {
				max = -1
			}
			var st Status
			dec, st = Decode(stored, dict, max)
			if st == OKEndsAfterMatch {
				bi.EndsAfterM = true
				if !o.AllowEndsMatch {
					return p, &perr{"block ends after a match", bi.Off}
				}
			} else if st != OK {
				return p, &perr{"block does not decode: " + st.String(), bi.Off}
			}
		}
		if p.BlockSum {
			over := stored
			if o.SumOverDecoded {
				over = dec
			}
			if XXH32(over) != sum {
				return p, &perr{"block checksum mismatch", pos - 4}
			}
		}
		bi.Decoded = len(dec)
		p.Blocks = append(p.Blocks, bi)
		p.Content = append(p.Content, dec...)
		content.Write(dec)
	}
	if p.ContentSum {
		if err := need(4, "content checksum"); err != nil {
			return p, err
		}
		cs := le32(b[pos:])
		add("csum", 4, -1)
		if cs != content.Sum32() {
			return p, &perr{"content checksum mismatch", pos - 4}
		}
	}
	if p.HasSize && !o.NoContentSize && p.ContentSize != uint64(len(p.Content)) {
		return p, &perr{"content size field differs from the decoded length", dstart + 2}
	}
	p.Consumed = pos
	if !o.AllowTrailing && pos != len(b) {
		return p, &perr{"trailing bytes", pos}
	}
	return p, nil
}

func parseLegacy(b []byte, ppos *int, p *Parsed, o Opts) error {
	pos := *ppos
	defer func() { *ppos = pos }()
	add := func(kind string, n, blk int) {
		p.Fields = append(p.Fields, Field{kind, pos, n, blk})
		pos += n
	}
	p.BSCode = 3
	p.LegacyFrames = 1
	shortSeen := false
	for blk := 0; ; blk++ {
		if pos == len(b) {
			return nil // legacy frames end with the stream
		}
		if len(b)-pos < 4 {
			return &perr{"truncated block size", pos}
		}
		w := le32(b[pos:])
		if w == MagicLegacy {
			// concatenated legacy frame
			add("magic", 4, -1)
			p.LegacyFrames++
			shortSeen = false
			blk--
			continue
		}
		if o.LegacyLoose && uint64(w) == uint64(uint32(len(p.Content))) && len(b)-pos-4 < int(w) {
			// Linux-kernel style trailer: total uncompressed size. What follows (fewer bytes than a
			// block of that size would need) is not part of the stream.
			add("legacy-trailer", 4, -1)
			p.LegacyTrail = true
			pos = len(b)
			return nil
		}
		if false {
			// Linux-kernel style trailer: total uncompressed size
			add("legacy-trailer", 4, -1)
			p.LegacyTrail = true
			return nil
		}
		if w == MagicFrame || (w >= MagicSkipLo && w <= MagicSkipHi) {
			if o.AllowTrailing {
				return nil
			}
			return &perr{"another frame follows the legacy frame", pos}
		}
		n := int(w)
		if w > uint32(LZ4CompressBound(LegacyBlock)) {
			return &perr{"legacy block larger than the compressed bound of 8 MiB", pos}
		}
		bi := BlockInfo{Off: pos, Stored: n}
		add("bsize", 4, blk)
		if len(b)-pos < n {
			return &perr{"truncated block data", pos}
		}
		stored := b[pos : pos+n]
		add("bdata", n, blk)
		max := LegacyBlock
		if o.NoDecodedMax {
			max = -1
		}
		dec, st := Decode(stored, nil, max)
		if st == OKEndsAfterMatch {
			bi.EndsAfterM = true
			if !o.AllowEndsMatch {
				return &perr{"block ends after a match", bi.Off}
			}
		} else if st != OK {
			return &perr{"legacy block does not decode: " + st.String(), bi.Off}
		}
		if !o.LegacyLoose {
			if shortSeen {
				return &perr{"legacy block follows a block shorter than 8 MiB", bi.Off}
			}
			if len(dec) != LegacyBlock {
				shortSeen = true
			}
		}
		bi.Decoded = len(dec)
		p.Blocks = append(p.Blocks, bi)
		p.Content = append(p.Content, dec...)
	}
}

// LZ4CompressBound is LZ4_COMPRESSBOUND from the reference documentation.
func LZ4CompressBound(n int) int { return n + n/255 + 16 }

// FieldAt returns the field containing byte offset off (or the field starting there).
func (p *Parsed) FieldAt(off int) (Field, bool) {
	for _, f := range p.Fields {
		if off >= f.Off && off < f.Off+f.Len {
			return f, true
		}
	}
	return Field{}, false
}

// ---- frame encoder driven by a plan ------------------------------------------------------

type BlockPlan struct {
	Raw     bool
	Data    []byte // stored bytes: for Raw the content itself, else an encoded block
	Decoded []byte // what Data decodes to (filled by EncodeFrame for raw; by caller or BuildBlock for compressed)
	BadSum  bool   // store a wrong block checksum
}

type FramePlan struct {
	BSCode         int
	Indep          bool
	BlockSum       bool
	ContentSum     bool
	HasSize        bool
	ContentSize    uint64
	SumOverDecoded bool // follow the tree's block-checksum convention
	Legacy         bool
	Blocks         []BlockPlan
	NoEndMark      bool
}

func put32(b []byte, v uint32) []byte {
	return append(b, byte(v), byte(v>>8), byte(v>>16), byte(v>>24))
}

func put64(b []byte, v uint64) []byte {
	return put32(put32(b, uint32(v)), uint32(v>>32))
}

// EncodeFrame serialises the plan. It returns the frame and the content it should decode to.
func EncodeFrame(fp FramePlan) (frame, content []byte) {
	if fp.Legacy {
		frame = put32(nil, MagicLegacy)
		for _, bl := range fp.Blocks {
			frame = put32(frame, uint32(len(bl.Data)))
			frame = append(frame, bl.Data...)
			content = append(content, bl.Decoded...)
		}
		return
	}
	frame = put32(nil, MagicFrame)
	flg := byte(1 << 6)
	if fp.Indep {
		flg |= 0x20
	}
	if fp.BlockSum {
		flg |= 0x10
	}
	if fp.HasSize {
		flg |= 0x08
	}
	if fp.ContentSum {
		flg |= 0x04
	}
	bd := byte(fp.BSCode << 4)
	d := []byte{flg, bd}
	if fp.HasSize {
		d = put64(d, fp.ContentSize)
	}
	frame = append(frame, d...)
	frame = append(frame, byte(XXH32(d)>>8))
	for _, bl := range fp.Blocks {
		w := uint32(len(bl.Data))
		dec := bl.Decoded
		if bl.Raw {
			w |= 1 << 31
			dec = bl.Data
		}
		frame = put32(frame, w)
		frame = append(frame, bl.Data...)
		if fp.BlockSum {
			over := bl.Data
			if fp.SumOverDecoded {
				over = dec
			}
			s := XXH32(over)
			if bl.BadSum {
				s ^= 0x00010000
			}
			frame = put32(frame, s)
		}
		content = append(content, dec...)
	}
	if !fp.NoEndMark {
		frame = put32(frame, 0)
		if fp.ContentSum {
			frame = put32(frame, XXH32(content))
		}
	}
	return
}

// BuildBlock encodes seqs and derives the decoded bytes given the history (the content of
// the preceding blocks, for dependent-block frames). ok is false when the sequences are not
// decodable against that history.
func BuildBlock(seqs []Seq, history []byte) (bp BlockPlan, ok bool) {
	data := EncodeBlock(seqs)
	dict := history
	if len(dict) > 65536 {
		dict = dict[len(dict)-65536:]
	}
	dec, st := Decode(data, dict, -1)
	if st != OK {
		return BlockPlan{}, false
	}
	return BlockPlan{Data: data, Decoded: dec}, true
}
