package props

import (
	"encoding/json"
	"fmt"
	"os"
	"strings"
	"time"

	"github.com/pierrec/lz4/v4/verifsched"

	"verif/harness/ev"
)

// E1: stateless schedule exploration. DFS over choice sequences of the controlled scheduler
// with iterative preemption bounding (CHESS). One execution = one run of the scenario body
// as thread 0 plus whatever goroutines the library spawns, every visible operation a
// scheduling point.

// Obs is the per-execution observation record a scenario body fills in.
type Obs struct {
	Log   []string // call results in program order of thread 0 ("Write=5,<nil>")
	Sink  []byte
	Out   []byte
	Notes []string // anything else (handler calls...), order-insensitive content is sorted by the scenario
	state []func() uint64
	late  func() // runs in Check, after all threads have finished
	Extra interface{}
}

func (o *Obs) logf(format string, a ...interface{}) { o.Log = append(o.Log, fmt.Sprintf(format, a...)) }

type Scenario struct {
	Name string
	Opts verifsched.Options
	// Body runs as thread 0.
	Body func(o *Obs)
	// Check judges a finished execution; sig == "" means it held.
	Check func(o *Obs, x *verifsched.Execution) (sig, what string)
	// Soft judges a clause whose violation is reported (scenario-independent signature) without
	// cutting the exploration below the execution.
	Soft func(o *Obs, x *verifsched.Execution) (sig, what string)
}

type schedCase struct {
	Scenario string `json:"scenario"`
	Prefix   []int  `json:"prefix"`
}

type exploreStats struct {
	Executions  int64
	Concurrent  int64
	MaxPoints   int
	MaxThreads  int
	BoundDone   int
	CapHit      bool
	Transitions int64
}

type explorer struct {
	c      *ev.Ctx
	sc     *Scenario
	bound  int
	st     *exploreStats
	child  int64
	failed map[string]bool
	dl     time.Time
	// state-key pruning: key -> fewest preemptions with which the state has been reached
	visited map[uint64]int
	pruned  int64
	noShard bool // explore every level-1 subtree here (the caller shards on something else)
}

var debugExplore = os.Getenv("VERIF_DEBUG") != ""
var noPrune = os.Getenv("VERIF_NOPRUNE") != ""

func runScenario(sc *Scenario, prefix []int) (*verifsched.Execution, *Obs) {
	return runScenarioV(sc, prefix, nil)
}

func runScenarioV(sc *Scenario, prefix []int, visit func(key uint64, pre int) bool) (*verifsched.Execution, *Obs) {
	o := &Obs{}
	if debugExplore {
		fmt.Fprintln(os.Stderr, "RUN", sc.Name, prefix)
		if os.Getenv("VERIF_DEBUG") == "2" {
			verifsched.Debug = true
		}
	}
	opts := sc.Opts
	opts.Visit = visit
	if visit != nil {
		opts.StateHook = o.stateDigest
	}
	x := verifsched.Run(prefix, opts, func() { sc.Body(o) })
	return x, o
}

// AddState registers a contributor to the harness-side part of the state key (sink digest,
// source position ...).
func (o *Obs) AddState(f func() uint64) { o.state = append(o.state, f) }

func (o *Obs) stateDigest() uint64 {
	h := uint64(1469598103934665603)
	for _, l := range o.Log {
		for i := 0; i < len(l); i++ {
			h = (h ^ uint64(l[i])) * 1099511628211
		}
		h = (h ^ 0xff) * 1099511628211
	}
	var sum uint64
	for _, l := range o.Notes { // order-insensitive
		g := uint64(1469598103934665603)
		for i := 0; i < len(l); i++ {
			g = (g ^ uint64(l[i])) * 1099511628211
		}
		sum += g
	}
	h = (h ^ sum) * 1099511628211
	for _, f := range o.state {
		h = (h ^ f()) * 1099511628211
	}
	h = (h ^ uint64(len(o.Out))) * 1099511628211
	return h
}

func obsDigest(o *Obs, x *verifsched.Execution) string {
	h := uint64(1469598103934665603)
	mix := func(b []byte) {
		for _, c := range b {
			h = (h ^ uint64(c)) * 1099511628211
		}
		h = (h ^ 0xff) * 1099511628211
	}
	for _, l := range o.Log {
		mix([]byte(l))
	}
	mix(o.Sink)
	mix(o.Out)
	for _, l := range o.Notes {
		mix([]byte(l))
	}
	mix([]byte(x.Verdict))
	return fmt.Sprintf("%016x", h)
}

func (e *explorer) judge(prefix []int, x *verifsched.Execution, o *Obs) (string, string) {
	if x.Verdict == "bad-prefix" {
		return "", ""
	}
	sig, what := e.sc.Check(o, x)
	if sig == "" && len(verifsched.PoisonBroken) > 0 {
		sig, what = "pool buffer misuse: "+verifsched.PoisonBroken[0], ""
	}
	return sig, what
}

func (e *explorer) explore(prefix []int, level int, parent *verifsched.Execution) {
	if e.st.CapHit {
		return
	}
	if !e.dl.IsZero() && time.Now().After(e.dl) {
		e.st.CapHit = true
		return
	}
	var visit func(uint64, int) bool
	if e.visited != nil {
		visit = func(key uint64, pre int) bool {
			if old, ok := e.visited[key]; ok && old <= pre {
				return false
			}
			e.visited[key] = pre
			return true
		}
	}
	x, o := runScenarioV(e.sc, prefix, visit)
	if x.Verdict == "bad-prefix" {
		e.c.Machinery("%s: prefix %v diverged while replaying (non-deterministic scenario)", e.sc.Name, prefix)
		return
	}
	if parent != nil {
		// the replayed part must see the same enabled-set sizes as the parent execution did
		for j := 0; j < len(prefix) && j < len(x.Points) && j < len(parent.Points); j++ {
			if x.Points[j].N != parent.Points[j].N {
				e.c.Machinery("%s: prefix %v replays with a different enabled set at point %d", e.sc.Name, prefix, j)
				return
			}
		}
	}
	e.st.Executions++
	e.st.Transitions += int64(x.Steps)
	if x.Concurrent {
		e.st.Concurrent++
	}
	if len(x.Points) > e.st.MaxPoints {
		e.st.MaxPoints = len(x.Points)
	}
	if x.Threads > e.st.MaxThreads {
		e.st.MaxThreads = x.Threads
	}
	if x.Verdict == "pruned" {
		e.pruned++
	} else {
		e.c.Outcome(e.sc.Name + ":" + obsDigest(o, x))
	}
	if e.st.Executions%257 == 1 && x.Verdict != "pruned" {
		// determinism: the same choice sequence must reproduce the same trace and observations
		x2, o2 := runScenario(e.sc, prefix)
		if x2.TraceHash != x.TraceHash || obsDigest(o2, x2) != obsDigest(o, x) {
			e.c.Machinery("%s: prefix %v is not deterministic", e.sc.Name, prefix)
			return
		}
	}
	if e.sc.Soft != nil && x.Verdict == "" {
		if sig, what := e.sc.Soft(o, x); sig != "" && !e.failed[sig] {
			e.failed[sig] = true
			k := schedCase{Scenario: e.sc.Name, Prefix: append([]int(nil), prefix...)}
			e.c.Report(&ev.Finding{Sig: sig, What: fmt.Sprintf("%s: %s; choice prefix %v", e.sc.Name, what, prefix), Case: k})
		}
	}
	if x.Verdict == "pruned" {
		// the state reached has been explored from an earlier execution with at least as much
		// preemption budget left; only the choice points before it remain to be expanded
	} else if sig, what := e.judge(prefix, x, o); sig != "" {
		full := e.sc.Name + ": " + sig
		if !e.failed[full] {
			e.failed[full] = true
			k := schedCase{Scenario: e.sc.Name, Prefix: append([]int(nil), prefix...)}
			pre := countPreemptions(x.Points, len(x.Points))
			f := &ev.Finding{Sig: full, What: fmt.Sprintf("%s; %d preemption(s), choice prefix %v, blocked=%v %s", what, pre, prefix, x.Blocked, x.PanicMsg), Case: k}
			e.c.Confirm(f, func() *ev.Finding {
				x2, o2 := runScenario(e.sc, prefix)
				if s2, _ := e.judge(prefix, x2, o2); s2 != "" {
					return &ev.Finding{Sig: e.sc.Name + ": " + s2}
				}
				return nil
			})
		}
		// keep exploring other subtrees, but not below a failing execution
		return
	}
	choices := make([]int, len(x.Points))
	for i, p := range x.Points {
		choices[i] = p.Chosen
	}
	for i := len(prefix); i < len(x.Points); i++ {
		p := x.Points[i]
		cost := countPreemptions(x.Points, i)
		for alt := 1; alt < p.N; alt++ {
			c := cost
			if p.RunningEnabled {
				c++
			}
			if c > e.bound {
				continue
			}
			if level == 0 {
				idx := e.child
				e.child++
				if !e.noShard && !e.c.Mine(idx) {
					continue
				}
			}
			child := append(append(make([]int, 0, i+1), choices[:i]...), alt)
			e.explore(child, level+1, x)
		}
	}
}

func countPreemptions(pts []verifsched.Point, n int) int {
	k := 0
	for j := 0; j < n; j++ {
		if pts[j].RunningEnabled && pts[j].Chosen != 0 {
			k++
		}
	}
	return k
}

// exploreScenario runs the scenario under iterative preemption bounding up to maxBound.
// Level-1 subtrees are sharded over the worker processes; the root execution is counted by
// shard 0 only.
func exploreScenario(c *ev.Ctx, sc *Scenario, maxBound int) exploreStats {
	return exploreScenarioDL(c, sc, maxBound, c.Deadline)
}

// scenarioDeadline splits what is left of the worker's time budget evenly over the scenarios
// still to run, so that a cap cuts every scenario's highest bound rather than whole scenarios.
func scenarioDeadline(c *ev.Ctx, i, n int) time.Time {
	if c.Deadline.IsZero() {
		return c.Deadline
	}
	left := time.Until(c.Deadline)
	if left < 0 {
		left = 0
	}
	return time.Now().Add(left / time.Duration(n-i))
}

func exploreScenarioDL(c *ev.Ctx, sc *Scenario, maxBound int, dl time.Time) exploreStats {
	var total exploreStats
	total.BoundDone = -1
	failed := map[string]bool{}
	var last *explorer // the explorer of the highest bound reached: its visited set is what is reported
	defer func() {
		if last != nil {
			c.Add("executions_pruned_at_a_visited_state", last.pruned)
			c.Add("distinct_states", int64(len(last.visited)))
		}
	}()
	for b := 0; b <= maxBound; b++ {
		st := exploreStats{}
		e := &explorer{c: c, sc: sc, bound: b, st: &st, failed: failed, dl: dl}
		if !noPrune {
			e.visited = map[uint64]int{}
		}
		last = e
		if b < maxBound {
			// lower bounds are re-explored by the next iteration; run them only to find the
			// counterexample with the fewest preemptions first
			e.explore(nil, 0, nil)
			if st.CapHit {
				total = st
				total.BoundDone = b - 1
				break
			}
			total = st
			total.BoundDone = b
			hard := false
			for k := range failed {
				if strings.HasPrefix(k, sc.Name+": ") {
					hard = true
				}
			}
			if hard {
				total = st
				total.BoundDone = b
				break
			}
			continue
		}
		e.explore(nil, 0, nil)
		total = st
		if !st.CapHit {
			total.BoundDone = b
		} else {
			total.BoundDone = b - 1
		}
	}
	if c.Shard != 0 && total.Executions > 0 {
		total.Executions-- // the root execution is run by every shard but counted once
		if total.Concurrent > 0 {
			total.Concurrent--
		}
	}
	c.Add("executions", total.Executions)
	c.Eval(total.Executions)
	c.Distinct(total.Concurrent)
	c.Add("executions_"+sc.Name, total.Executions)
	c.Add("executions_with_2+_enabled_threads", total.Concurrent)
	c.Add("transitions", total.Transitions)
	c.Max("max_choice_points_"+sc.Name, int64(total.MaxPoints))
	c.Max("max_threads", int64(total.MaxThreads))
	c.Max("negbound_"+sc.Name, int64(10-total.BoundDone)) // merged by max => min bound over shards
	if total.CapHit {
		c.Flag("exhaustive_within_bound", false)
		c.Note("cap_"+sc.Name, "time cap hit")
	} else {
		c.Flag("exhaustive_within_bound", true)
	}
	return total
}

func replayScenario(c *ev.Ctx, scs []*Scenario) {
	var k schedCase
	if err := json.Unmarshal(c.ReplayRaw, &k); err != nil {
		c.Machinery("bad replay: %v", err)
		return
	}
	for _, sc := range scs {
		if sc.Name != k.Scenario {
			continue
		}
		x, o := runScenario(sc, k.Prefix)
		e := &explorer{c: c, sc: sc}
		if sig, what := e.judge(k.Prefix, x, o); sig != "" {
			c.Report(&ev.Finding{Sig: sc.Name + ": " + sig, What: what, Case: k})
		}
		if sc.Soft != nil && x.Verdict == "" {
			if sig, what := sc.Soft(o, x); sig != "" {
				c.Report(&ev.Finding{Sig: sig, What: what, Case: k})
			}
		}
		return
	}
	c.Machinery("unknown scenario %q", k.Scenario)
}

// exploreBoundsFirst explores a set of scenarios with the bound as the OUTER loop: every scenario
// is completed at bound 0, then every scenario at bound 1, ... up to its own target, so that a
// time cap cuts the highest bound of the last scenarios instead of starving whole scenarios.
// A scenario with a (hard) finding is not explored at higher bounds.
func exploreBoundsFirst(c *ev.Ctx, scs []*Scenario, target func(*Scenario) int) {
	type rec struct {
		done   int
		st     exploreStats
		states int
		pruned int64
		failed map[string]bool
		capped bool
	}
	recs := make([]*rec, len(scs))
	maxT := 0
	for i, sc := range scs {
		recs[i] = &rec{done: -1, failed: map[string]bool{}}
		if t := target(sc); t > maxT {
			maxT = t
		}
	}
	capped := false
	for b := 0; b <= maxT && !capped; b++ {
		for i, sc := range scs {
			r := recs[i]
			if target(sc) < b || r.done < b-1 {
				continue
			}
			hard := false
			for k := range r.failed {
				if strings.HasPrefix(k, sc.Name+": ") {
					hard = true
				}
			}
			if hard {
				continue
			}
			if !c.Deadline.IsZero() && time.Now().After(c.Deadline) {
				capped = true
				r.capped = true
				break
			}
			st := exploreStats{}
			e := &explorer{c: c, sc: sc, bound: b, st: &st, failed: r.failed, dl: c.Deadline}
			if !noPrune {
				e.visited = map[uint64]int{}
			}
			t0 := time.Now()
			e.explore(nil, 0, nil)
			c.Add("ms_"+sc.Name, time.Since(t0).Milliseconds())
			if st.CapHit {
				capped = true
				r.capped = true
				c.Add("executions_in_unfinished_bounds", st.Executions)
				break
			}
			r.done, r.st, r.states, r.pruned = b, st, len(e.visited), e.pruned
			c.Add("executions_all_bounds", st.Executions)
		}
	}
	for i, sc := range scs {
		r := recs[i]
		ex := r.st.Executions
		conc := r.st.Concurrent
		if c.Shard != 0 && ex > 0 {
			ex--
			if conc > 0 {
				conc--
			}
		}
		c.Add("executions", ex)
		c.Eval(ex)
		c.Distinct(conc)
		c.Add("executions_"+sc.Name, ex)
		c.Add("executions_with_2+_enabled_threads", conc)
		c.Add("transitions", r.st.Transitions)
		c.Add("distinct_states", int64(r.states))
		c.Add("executions_pruned_at_a_visited_state", r.pruned)
		c.Max("max_choice_points_"+sc.Name, int64(r.st.MaxPoints))
		c.Max("max_threads", int64(r.st.MaxThreads))
		c.Max("negbound_"+sc.Name, int64(10-r.done))
		c.Flag("exhaustive_within_bound", r.done >= target(sc))
		if c.Shard == 0 && i%9 == 0 {
			c.Sample(map[string]interface{}{"scenario": sc.Name, "bound_completed": r.done, "max_choice_points": r.st.MaxPoints, "threads": r.st.MaxThreads, "executions_at_that_bound_in_this_shard": r.st.Executions})
		}
	}
}

// exploreLocal explores one scenario completely in this worker (no sharding of its subtrees) at
// exactly the given bound; it returns the number of executions.
func exploreLocal(c *ev.Ctx, sc *Scenario, bound int) int64 {
	st := exploreStats{}
	e := &explorer{c: c, sc: sc, bound: bound, st: &st, failed: map[string]bool{}, dl: c.Deadline, noShard: true}
	if !noPrune {
		e.visited = map[uint64]int{}
	}
	e.explore(nil, 0, nil)
	c.Add("schedule_executions", st.Executions)
	c.Add("schedule_transitions", st.Transitions)
	c.Add("schedule_states", int64(len(e.visited)))
	if st.CapHit {
		c.Flag("exhaustive", false)
	}
	return st.Executions
}

// boundsCompleted turns the merged "negbound_" maxima into {scenario: bound completed by every shard}.
func boundsCompleted(p *ev.Partial) map[string]int64 {
	out := map[string]int64{}
	for k, v := range p.Maxes {
		if strings.HasPrefix(k, "negbound_") {
			out[strings.TrimPrefix(k, "negbound_")] = 10 - v
			delete(p.Maxes, k)
		}
	}
	return out
}

// ---- explorer self-test: a lost update must be found at bound 1, a locked one must pass -------

func selfTestScenarios() (bad, good *Scenario) {
	mk := func(name string, locked bool) *Scenario {
		return &Scenario{Name: name,
			Body: func(o *Obs) {
				var mu verifsched.Mutex
				counter := 0
				done := verifsched.NewChan[int](0, "selftest")
				for i := 0; i < 2; i++ {
					verifsched.Go("selftest-worker", func() {
						if locked {
							mu.Lock()
						}
						v := counter
						verifsched.Yield("between read and write")
						counter = v + 1
						if locked {
							mu.Unlock()
						}
						done.Send(1)
					})
				}
				done.Recv()
				done.Recv()
				o.logf("counter=%d", counter)
			},
			Check: func(o *Obs, x *verifsched.Execution) (string, string) {
				if x.Verdict != "" {
					return "verdict " + x.Verdict, ""
				}
				if len(o.Log) != 1 || o.Log[0] != "counter=2" {
					return "lost update", fmt.Sprint(o.Log)
				}
				return "", ""
			}}
	}
	return mk("selftest-lost-update", false), mk("selftest-locked", true)
}
