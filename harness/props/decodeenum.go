package props

import (
	"bytes"
	"encoding/hex"
	"encoding/json"
	"fmt"
	"strconv"
	"strings"

	lz4 "github.com/pierrec/lz4/v4"

	"verif/harness/ev"
	"verif/harness/ref"
)

// decodeenum: one bounded-exhaustive enumerator of (src, len(dst), dict) triples feeding both
// real block decoders (the build's native one and the in-process copy of the portable one)
// and the reference decoder. Three oracles (C03 safety, C04 exactness, C12 equivalence).

type decCase struct {
	Fam     string `json:"fam"`
	SrcHex  string `json:"src"`
	DstLen  int    `json:"dst_len"` // -1: nil destination
	DictLen int    `json:"dict_len"`
	src     []byte
}

func (k *decCase) bytes() []byte {
	if k.src == nil && k.SrcHex != "" {
		k.src, _ = hex.DecodeString(k.SrcHex)
	}
	return k.src
}

func (k decCase) frozen() decCase {
	k.SrcHex = hex.EncodeToString(k.src)
	k.src = nil
	return k
}

const decCanary = 64

type decEnv struct {
	srcA, srcB, dstA, dstB *arena
	dictA, dictB           map[int][]byte
	digGo, digNative       uint64
	outs                   [3][2][]byte
	noDigest               bool
}

var decDictSizes = []int{0, 1, 8, 65536}

func dictByte(i, n int) byte { return byte(0x21 + (n-i)*7%89) } // value depends on distance from the end

func newDecEnv() *decEnv {
	e := &decEnv{srcA: newArena(8), srcB: newArena(8), dstA: newArena(8), dstB: newArena(8),
		dictA: map[int][]byte{}, dictB: map[int][]byte{}, digGo: 1469598103934665603, digNative: 1469598103934665603}
	for _, n := range decDictSizes {
		if n == 0 {
			e.dictA[0], e.dictB[0] = nil, nil
			continue
		}
		a, b := newArena(17), newArena(17)
		da, db := a.atEnd(n), b.atStart(n, 0)
		for i := 0; i < n; i++ {
			da[i] = dictByte(i, n)
			db[i] = dictByte(i, n)
		}
		a.readOnly()
		b.readOnly()
		e.dictA[n], e.dictB[n] = da, db
	}
	return e
}

type decRes struct {
	n      int
	out    []byte // view into the arena, valid until the next run
	panic  string
	canary bool // canary damaged
}

type decoder func(dst, src, dict []byte) int

// run executes one decoder under one placement. placement 'A': src, dst, dict end against
// the trailing guard page, canary in front of dst. 'B': they start right after the leading
// guard page, dst has spare capacity filled with canary.
func (e *decEnv) run(dec decoder, k *decCase, placement byte, fill byte) decRes {
	src := k.bytes()
	var s, d, dict []byte
	var can []byte
	if placement == 'A' {
		s = e.srcA.atEnd(len(src))
		dict = e.dictA[k.DictLen]
		if k.DstLen >= 0 {
			full := e.dstA.atEnd(k.DstLen + decCanary)
			can = full[:decCanary]
			d = full[decCanary:]
		}
	} else {
		s = e.srcB.atStart(len(src), 0)
		dict = e.dictB[k.DictLen]
		if k.DstLen >= 0 {
			full := e.dstB.atStart(k.DstLen+decCanary, 0)
			d = full[:k.DstLen:len(full)]
			can = full[k.DstLen:]
		}
	}
	copy(s, src)
	for i := range d {
		d[i] = fill
	}
	for i := range can {
		can[i] = 0xC3
	}
	var r decRes
	func() {
		defer func() {
			if x := recover(); x != nil {
				r.panic = fmt.Sprint(x)
			}
		}()
		r.n = dec(d, s, dict)
	}()
	for _, b := range can {
		if b != 0xC3 {
			r.canary = true
			break
		}
	}
	if r.panic == "" && r.n >= 0 && r.n <= len(d) {
		r.out = d[:r.n]
	}
	return r
}

func panicClass(msg string) string {
	switch {
	case strings.Contains(msg, "nil pointer"):
		return "nil-deref"
	case strings.Contains(msg, "fault"):
		return "fault"
	case strings.Contains(msg, "out of range"):
		return "index-out-of-range"
	}
	if len(msg) > 40 {
		msg = msg[:40]
	}
	return msg
}

func dstClass(k *decCase, exact int) string {
	switch {
	case k.DstLen < 0:
		return "dst=nil"
	case k.DstLen == 0:
		return "dst=empty"
	case exact >= 0 && k.DstLen < exact:
		return "dst=short"
	case exact >= 0 && k.DstLen == exact:
		return "dst=exact"
	}
	return "dst=roomy"
}

func fnvMix(h uint64, n int, out []byte) uint64 {
	x := uint64(int64(n))
	for i := 0; i < 8; i++ {
		h = (h ^ (x & 0xff)) * 1099511628211
		x >>= 8
	}
	for _, b := range out {
		h = (h ^ uint64(b)) * 1099511628211
	}
	return h
}

// eval runs one case under the armed oracle and returns a finding or nil.
func (e *decEnv) eval(prop string, k *decCase) *ev.Finding {
	src := k.bytes()
	dlen := k.DstLen
	if dlen < 0 {
		dlen = 0
	}
	dict := e.dictB[k.DictLen]
	refOut, st := ref.Decode(src, dict, dlen)
	exact := -1
	if st == ref.OK {
		exact = len(refOut)
	}
	type named struct {
		name string
		dec  decoder
	}
	decs := []named{{"native(" + nativeName() + ")", lz4.VerifDecodeNative}, {"portable", lz4.VerifDecodeGo}, {"UncompressBlockWithDict", apiDecode}}
	var res [3][2]decRes
	outs := &e.outs
	for di, d := range decs {
		res[di][0] = e.run(d.dec, k, 'A', 0x00)
		outs[di][0] = append(outs[di][0][:0], res[di][0].out...)
		res[di][1] = e.run(d.dec, k, 'B', 0xA5)
		outs[di][1] = append(outs[di][1][:0], res[di][1].out...)
	}
	// digests for the cross-build comparison (C12); not updated by confirmation re-runs
	if !e.noDigest {
		r := res[1][0]
		n := r.n
		if n < 0 {
			n = -1
		}
		if r.panic != "" {
			n = -99
		}
		e.digGo = fnvMix(e.digGo, n, outs[1][0])
		r = res[0][0]
		n = r.n
		if n < 0 {
			n = -1
		}
		if r.panic != "" {
			n = -99
		}
		e.digNative = fnvMix(e.digNative, n, outs[0][0])
	}
	mk := func(sig, what string) *ev.Finding {
		return &ev.Finding{Sig: sig, What: fmt.Sprintf("%s; fam=%s src=%x dst_len=%d dict_len=%d ref=%s", what, k.Fam, src, k.DstLen, k.DictLen, st), Case: k.frozen()}
	}
	switch prop {
	case "C03":
		for di, d := range decs {
			for pi, pl := range []string{"end-aligned", "start-aligned"} {
				r := res[di][pi]
				switch {
				case r.panic != "":
					return mk(fmt.Sprintf("%s decoder panics (%s) %s", d.name, panicClass(r.panic), dstClass(k, exact)), r.panic+" placement="+pl)
				case r.canary:
					return mk(fmt.Sprintf("%s decoder writes outside len(dst) %s", d.name, dstClass(k, exact)), "canary damaged placement="+pl)
				case r.n > dlen:
					return mk(fmt.Sprintf("%s decoder returns n > len(dst) %s", d.name, dstClass(k, exact)), fmt.Sprintf("n=%d placement=%s", r.n, pl))
				}
			}
		}
	case "C04":
		for di, d := range decs {
			for pi := range []int{0, 1} {
				r := res[di][pi]
				if r.panic != "" {
					continue // C03's business
				}
				switch {
				case st == ref.OK:
					if r.n != len(refOut) || !bytes.Equal(outs[di][pi], refOut) {
						what := fmt.Sprintf("n=%d want %d", r.n, len(refOut))
						cls := "wrong bytes"
						if r.n < 0 {
							cls = "error"
						} else if r.n != len(refOut) {
							cls = "wrong length"
						}
						return mk(fmt.Sprintf("%s decoder: well-formed block that fits gives %s; %s dict=%v", d.name, cls, dstClass(k, exact), k.DictLen > 0), what)
					}
				case st == ref.ErrZeroOffset || st == ref.ErrOffsetRange || st == ref.ErrTruncated || st == ref.ErrOverflow:
					if r.n >= 0 {
						return mk(fmt.Sprintf("%s decoder accepts a block with %s", d.name, st), fmt.Sprintf("n=%d", r.n))
					}
				}
			}
			if st == ref.OK && res[di][0].panic == "" && res[di][1].panic == "" {
				if res[di][0].n != res[di][1].n || !bytes.Equal(outs[di][0], outs[di][1]) {
					return mk(fmt.Sprintf("%s decoder: result depends on the destination's prior contents or placement", d.name), "")
				}
			}
		}
	case "C12":
		for pi := range []int{0, 1} {
			a, b := res[0][pi], res[1][pi]
			if a.panic != "" || b.panic != "" {
				if (a.panic != "") != (b.panic != "") {
					return mk("native and portable decoders differ: one panics", a.panic+" / "+b.panic)
				}
				continue
			}
			switch {
			case (a.n < 0) != (b.n < 0):
				which := "native errors, portable succeeds"
				if b.n < 0 {
					which = "portable errors, native succeeds"
				}
				return mk("native and portable decoders differ on success/error: "+which+"; ref="+st.String(), fmt.Sprintf("native=%d portable=%d", a.n, b.n))
			case a.n >= 0 && a.n != b.n:
				return mk("native and portable decoders return different lengths; ref="+st.String(), fmt.Sprintf("native=%d portable=%d", a.n, b.n))
			case a.n >= 0 && !bytes.Equal(outs[0][pi], outs[1][pi]):
				return mk("native and portable decoders return different bytes; ref="+st.String(), "")
			}
		}
	}
	return nil
}

// apiDecode goes through the exported entry point (which wraps the build's decoder), so that
// anything done around the decoder is covered too. An empty source is (0, nil) by contract.
func apiDecode(dst, src, dict []byte) int {
	var n int
	var err error
	if dict == nil {
		n, err = lz4.UncompressBlock(src, dst)
	} else {
		n, err = lz4.UncompressBlockWithDict(src, dst, dict)
	}
	if err != nil {
		return -1
	}
	return n
}

func nativeName() string {
	if Flavour == "noasm" {
		return "portable-build"
	}
	return "asm"
}

// ---- enumerators ---------------------------------------------------------------------------

func ctrBytes(n, start int) []byte {
	b := make([]byte, n)
	for i := range b {
		b[i] = byte(0x80 + (start+i)%113)
	}
	return b
}

var (
	decLitClasses   = []int{0, 1, 2, 13, 14, 15, 16, 17, 31, 32, 33, 47, 48, 49, 270, 271}
	decMatchClasses = []int{4, 5, 14, 15, 17, 18, 19, 20, 31, 32, 33, 34, 273, 274}
	decLastClasses  = []int{-1, 0, 1, 5, 12, 15, 16, 17, 48, 49}
	decLitSub       = []int{0, 1, 14, 15, 16, 33}
	decMatchSub     = []int{4, 5, 18, 19, 20, 273}
)

func offClasses(di, dictLen int, sub bool) []int {
	var base []int
	if sub {
		base = []int{1, 2, 8, 16, di, di + dictLen, di + 1, 65535}
	} else {
		base = []int{0, 1, 2, 3, 4, 7, 8, 9, 15, 16, 17, 18, 19, di - 1, di, di + 1, di + dictLen - 1, di + dictLen, di + dictLen + 1, 65535}
	}
	seen := map[int]bool{}
	var out []int
	for _, o := range base {
		if o < 0 || o > 65535 || seen[o] {
			continue
		}
		seen[o] = true
		out = append(out, o)
	}
	return out
}

func dstLens(exact, m int) []int {
	cand := []int{exact, exact - 1, exact - m, exact + 1, exact + 40, 0, -1}
	seen := map[int]bool{}
	var out []int
	for _, d := range cand {
		if d < -1 || seen[d] {
			continue
		}
		seen[d] = true
		out = append(out, d)
	}
	return out
}

func exactLen(block []byte, dictLen int, env *decEnv, fallback int) int {
	out, st := ref.Decode(block, env.dictB[dictLen], -1)
	if st == ref.OK || st == ref.OKEndsAfterMatch {
		return len(out)
	}
	return fallback
}

type decEmit func(k *decCase)

func genD1(c *ev.Ctx, emit decEmit) {
	maxLen := 2
	if c.Thorough() {
		maxLen = 3
	}
	buf := make([]byte, 3)
	variants := func(src []byte) {
		for _, dl := range []int{0, 1, 4, 40} {
			for _, dk := range []int{0, 8} {
				if !c.Next() {
					continue
				}
				emit(&decCase{Fam: "D1", src: src, DstLen: dl, DictLen: dk})
			}
		}
	}
	variants([]byte{})
	for n := 1; n <= maxLen; n++ {
		total := 1 << (8 * uint(n))
		for v := 0; v < total; v++ {
			for i := 0; i < n; i++ {
				buf[i] = byte(v >> (8 * uint(i)))
			}
			variants(buf[:n])
		}
	}
	if !c.Thorough() {
		// length 3: every token × 16×16 representative continuation bytes
		vals := []byte{0, 1, 2, 3, 4, 7, 8, 0x0F, 0x10, 0x11, 0x40, 0x7F, 0x80, 0xF0, 0xFE, 0xFF}
		for t := 0; t < 256; t++ {
			for _, a := range vals {
				for _, b := range vals {
					buf[0], buf[1], buf[2] = byte(t), a, b
					variants(buf[:3])
				}
			}
		}
	}
}

func lastSeq(ll, start int) []ref.Seq {
	if ll < 0 {
		return nil
	}
	return []ref.Seq{{Lit: ctrBytes(ll, start)}}
}

func genD2k1(c *ev.Ctx, env *decEnv, emit decEmit, withMut bool, emitMut decEmit) {
	idx := 0
	for _, L := range decLitClasses {
		for _, M := range decMatchClasses {
			for _, dk := range decDictSizes {
				for _, off := range offClasses(L, dk, false) {
					for _, LL := range decLastClasses {
						seqs := append([]ref.Seq{{Lit: ctrBytes(L, 0), Off: off, MLen: M}}, lastSeq(LL, L)...)
						block := ref.EncodeBlock(seqs)
						ll := LL
						if ll < 0 {
							ll = 0
						}
						exact := exactLen(block, dk, env, L+M+ll)
						for _, dl := range dstLens(exact, M) {
							if !c.Next() {
								continue
							}
							emit(&decCase{Fam: "D2k1", src: block, DstLen: dl, DictLen: dk})
						}
						idx++
						if withMut && (dk == 0 || dk == 8) && (c.Thorough() || idx%16 == 0) {
							genMut(c, block, exact, dk, emitMut)
						}
					}
				}
			}
		}
	}
}

func genMut(c *ev.Ctx, block []byte, exact, dk int, emit decEmit) {
	vals := []byte{0x00, 0x01, 0x0F, 0x10, 0xF0, 0xFF}
	// truncations
	for n := 1; n < len(block); n++ {
		if !c.Next() {
			continue
		}
		emit(&decCase{Fam: "D4trunc", src: block[:n], DstLen: exact + 40, DictLen: dk})
	}
	// substitutions at structural positions and a stride of literal positions
	m := make([]byte, len(block))
	for p := 0; p < len(block); p++ {
		if len(block) > 64 && p > 24 && p < len(block)-24 && p%17 != 0 {
			continue // deep inside a long literal run: values do not steer the decoder
		}
		for _, v := range append(vals, block[p]^0x80) {
			if v == block[p] {
				continue
			}
			if !c.Next() {
				continue
			}
			copy(m, block)
			m[p] = v
			for _, dl := range []int{exact, exact + 40} {
				emit(&decCase{Fam: "D4subst", src: m, DstLen: dl, DictLen: dk})
			}
		}
	}
}

func genD2k2(c *ev.Ctx, env *decEnv, emit decEmit) {
	lit2, match2 := decLitSub, decMatchSub
	if c.Thorough() {
		lit2, match2 = decLitClasses, decMatchClasses
	}
	for _, L1 := range decLitSub {
		for _, M1 := range decMatchSub {
			for _, dk := range decDictSizes {
				for _, off1 := range offClasses(L1, dk, true) {
					di1 := L1 + M1
					for _, L2 := range lit2 {
						for _, M2 := range match2 {
							for _, off2 := range offClasses(di1+L2, dk, !c.Thorough()) {
								for _, LL := range []int{0, 1, 5, 12, 15, 16, 17, 48, 49} {
									if !c.Next() {
										continue
									}
									seqs := []ref.Seq{{Lit: ctrBytes(L1, 0), Off: off1, MLen: M1}, {Lit: ctrBytes(L2, L1), Off: off2, MLen: M2}, {Lit: ctrBytes(LL, L1+L2)}}
									block := ref.EncodeBlock(seqs)
									exact := exactLen(block, dk, env, L1+M1+L2+M2+LL)
									for _, dl := range []int{exact, exact - 1, exact + 40} {
										if dl < 0 {
											continue
										}
										emit(&decCase{Fam: "D2k2", src: block, DstLen: dl, DictLen: dk})
									}
								}
							}
						}
					}
				}
			}
		}
	}
}

// genD3: the wide-copy placement grid. A warm-up sequence (optional), then a sequence that
// triggers one of the shortcuts, then t further source bytes (a final literals-only sequence
// of t-1 literals; t=0: nothing) with s destination bytes left after the shortcut sequence.
func genD3(c *ev.Ctx, env *decEnv, emit decEmit) {
	lits := []int{1, 8, 14, 15, 16, 33, 47, 48, 49}
	mls := []int{4, 5, 12, 16, 17, 18, 19}
	ss := []int{0, 1, 2, 3, 4, 8, 15, 16, 17, 18, 19, 31, 32, 33, 47, 48}
	if c.Thorough() {
		ss = nil
		for s := 0; s <= 48; s++ {
			ss = append(ss, s)
		}
	} else {
		lits = []int{1, 14, 15, 16, 48, 49}
		mls = []int{4, 12, 16, 18, 19}
	}
	for _, P := range []int{0, 40} {
		for _, dk := range []int{0, 8} {
			for _, L := range lits {
				for _, M := range mls {
					di := L
					if P > 0 {
						di += P + 4
					}
					offs := []int{1, 2, 7, 8, 9, 15, 16, 17, 18, 19, 20, 22, L, di - 1, di, di + dk} // 19..di-1: offsets at or above the longest match the shortcuts may take, still inside the output
					seen := map[int]bool{}
					for _, off := range offs {
						if off <= 0 || off > di+dk || seen[off] {
							continue
						}
						seen[off] = true
						for t := 0; t <= 48; t++ {
							var seqs []ref.Seq
							if P > 0 {
								seqs = append(seqs, ref.Seq{Lit: ctrBytes(P, 200), Off: 1, MLen: 4})
							}
							seqs = append(seqs, ref.Seq{Lit: ctrBytes(L, 0), Off: off, MLen: M})
							if t > 0 {
								seqs = append(seqs, ref.Seq{Lit: ctrBytes(t-1, L)})
							}
							block := ref.EncodeBlock(seqs)
							after := di + M // output position after the shortcut sequence
							for _, s := range ss {
								if !c.Next() {
									continue
								}
								emit(&decCase{Fam: "D3", src: block, DstLen: after + s, DictLen: dk})
							}
						}
					}
				}
			}
		}
	}
}

func decodeEnumRun(prop string) func(c *ev.Ctx) {
	return func(c *ev.Ctx) {
		env := newDecEnv()
		fams := map[string]int64{}
		var crumbHdr []byte
		emit := func(k *decCase) {
			c.Eval(1)
			fams[k.Fam]++
			_, st := ref.Decode(k.bytes(), env.dictB[k.DictLen], -1)
			if st != ref.ErrEmpty && len(k.src) > 1 {
				c.Distinct(1)
			}
			c.Outcome(k.Fam + ":" + st.String())
			if fams[k.Fam] == 1000 {
				c.Sample(k.frozen())
			}
			crumbHdr = append(crumbHdr[:0], k.Fam...)
			crumbHdr = append(crumbHdr, '|')
			crumbHdr = strconv.AppendInt(crumbHdr, int64(k.DstLen), 10)
			crumbHdr = append(crumbHdr, '|')
			crumbHdr = strconv.AppendInt(crumbHdr, int64(k.DictLen), 10)
			crumbHdr = append(crumbHdr, '|')
			c.Crumb(crumbHdr, k.src)
			if f := env.eval(prop, k); f != nil {
				kk := k.frozen()
				env.noDigest = true
				c.Confirm(f, func() *ev.Finding { k2 := kk; return env.eval(prop, &k2) })
				env.noDigest = false
			}
		}
		genD1(c, emit)
		genD2k1(c, env, emit, true, emit)
		genD3(c, env, emit)
		genD2k2(c, env, emit)
		for k, v := range fams {
			c.Add("cases_"+k, v)
		}
		c.Flag("exhaustive", true)
		c.P.Extra[fmt.Sprintf("digest_%s_%d", Flavour, c.Shard)] = fmt.Sprintf("%016x/%016x", env.digGo, env.digNative)
	}
}

func decodeEnumReplay(prop string) func(c *ev.Ctx) {
	return func(c *ev.Ctx) {
		var k decCase
		if err := json.Unmarshal(c.ReplayRaw, &k); err != nil {
			c.Machinery("bad replay: %v", err)
			return
		}
		env := newDecEnv()
		if f := env.eval(prop, &k); f != nil {
			c.Report(f)
		}
	}
}

const decRule = "bounded-exhaustive enumeration of (src, len(dst), dict) triples: D1 every byte string of length 0..2 (quick; +16x16 continuation values per token at length 3) or 0..3 (thorough) x len(dst) in {0,1,4,40} x dict in {none,8}; " +
	"D2 every derivation of the block grammar with 1 sequence + final literals over boundary classes (16 literal lengths x 14 match lengths x up to 20 offsets incl. di-1,di,di+1,di+|dict|-1..+1,65535 x 10 endings x 4 dictionary sizes x up to 7 destination lengths) and 2 sequences over a sub-grid (thorough: second sequence over the full classes); " +
	"D3 wide-copy placement grid (shortcut-triggering sequence followed by t in 0..48 source bytes and s destination bytes); D4 every truncation and byte substitution from 7 values of D2 blocks (quick: every 16th block). " +
	"Each triple runs on both real decoders under two guard-page placements (end-aligned / start-aligned with canaries and spare capacity) with two destination pre-fills. " +
	"Cases are distinct by construction; non-trivial = source longer than one byte."

var decAssumptions = []string{
	"ref.Decode is the block specification (checked against every block the compressors emit in C01 and against testdata in setup)",
	"guard pages detect out-of-slice accesses at the flush end only; the opposite end is covered by the second placement and by canaries",
	"blocks that end right after a match or are empty are treated as unspecified by C04 (not in the statement's error list)",
}

func init() {
	for _, p := range []string{"C03", "C04", "C12"} {
		p := p
		d := &ev.Driver{
			Prop: p, Level: "exploration", Rule: decRule, Assumptions: decAssumptions,
			Run: decodeEnumRun(p), Replay: decodeEnumReplay(p),
			Alt:          []string{"noasm"},
			StallSeconds: 120,
			Crash: func(crumb []byte, tail string) *ev.Finding {
				parts := bytes.SplitN(crumb, []byte{'|'}, 4)
				if len(parts) != 4 {
					return nil
				}
				dl, _ := strconv.Atoi(string(parts[1]))
				dk, _ := strconv.Atoi(string(parts[2]))
				k := decCase{Fam: string(parts[0]), DstLen: dl, DictLen: dk, src: parts[3]}
				if strings.Contains(tail, "verif: stalled") {
					if p != "C03" {
						return &ev.Finding{Sig: "a decoder call does not return (see C03)", What: "stalled", Case: k.frozen()}
					}
					return &ev.Finding{Sig: "a block decoder does not return (it loops forever on some input)", What: fmt.Sprintf("fam=%s src=%x dst_len=%d dict_len=%d", k.Fam, k.src, dl, dk), Case: k.frozen()}
				}
				cls := "fatal error"
				for _, l := range strings.Split(tail, "\n") {
					if strings.HasPrefix(l, "fatal error:") || strings.HasPrefix(l, "runtime: ") || strings.HasPrefix(l, "unexpected fault") {
						cls = strings.TrimSpace(l)
						if len(cls) > 60 {
							cls = cls[:60]
						}
						break
					}
				}
				if p != "C03" {
					// the crash itself is C03's finding; the other oracles could not run
					return &ev.Finding{Sig: "decoder crashed the worker process (see C03)", What: cls, Case: k.frozen()}
				}
				return &ev.Finding{Sig: "a block decoder crashes the process (unrecoverable fault)", What: fmt.Sprintf("%s; fam=%s src=%x dst_len=%d dict_len=%d", cls, k.Fam, k.src, dl, dk), Case: k.frozen()}
			},
		}
		d.Post = func(c *ev.Ctx) {
			// cross-build digest: the genuine -tags noasm build must produce, shard by shard, the
			// digest the in-process portable copy produced in the default build.
			plain, noasm := map[string]string{}, map[string]string{}
			for k, v := range c.P.Extra {
				if strings.HasPrefix(k, "digest_plain_") {
					plain[strings.TrimPrefix(k, "digest_plain_")] = v.(string)
					delete(c.P.Extra, k)
				} else if strings.HasPrefix(k, "digest_noasm_") {
					noasm[strings.TrimPrefix(k, "digest_noasm_")] = v.(string)
					delete(c.P.Extra, k)
				}
			}
			match := 0
			for sh, pv := range plain {
				nv, ok := noasm[sh]
				if !ok {
					c.Machinery("no noasm digest for shard %s", sh)
					continue
				}
				pgo := strings.Split(pv, "/")[0]
				nnat := strings.Split(nv, "/")[1]
				if pgo != nnat {
					if p == "C12" {
						c.Report(&ev.Finding{Sig: "the -tags noasm build and the in-process portable copy disagree on the case stream", What: "shard " + sh, Case: map[string]string{"shard": sh}})
					}
				} else {
					match++
				}
			}
			c.P.Extra["cross_build_digest_shards_matching"] = match
		}
		ev.Register(d)
	}
}
