package props

import (
	"bytes"
	"encoding/json"
	"fmt"
	"time"

	lz4 "github.com/pierrec/lz4/v4"

	"verif/harness/ev"
	"verif/harness/ref"
)

// blockenum: one bounded-exhaustive enumerator of sources for the block compressors, with
// four oracles: C01 round trip, C10 strict validity, C11 destination contract, C14 (block
// half) determinism with respect to compressor/pool history.

// ---- sources ---------------------------------------------------------------------------------

type srcSpec struct {
	Fam string `json:"fam"`
	// S1: Len, Bits over alphabet Alpha ("01" or "abc", base-|Alpha| digits of Bits)
	Len   int    `json:"len,omitempty"`
	Bits  uint64 `json:"bits,omitempty"`
	Alpha string `json:"alpha,omitempty"`
	// S2: Period, Len
	Period int `json:"period,omitempty"`
	// S3: Pre, Dist, Rep, Tail, Fill
	Pre  int    `json:"pre,omitempty"`
	Dist int    `json:"dist,omitempty"`
	Rep  int    `json:"rep,omitempty"`
	Tail int    `json:"tail,omitempty"`
	Fill string `json:"fill,omitempty"`
	// S4: Len, Content
	Content string `json:"content,omitempty"`
}

func lcgFill(b []byte, seed uint64) {
	x := seed*2862933555777941757 + 3037000493
	for i := range b {
		x = x*6364136223846793005 + 1442695040888963407
		b[i] = byte(x >> 33)
	}
}

func (s srcSpec) build(buf []byte) []byte {
	switch s.Fam {
	case "S1":
		b := buf[:0]
		v := s.Bits
		base := uint64(len(s.Alpha))
		for i := 0; i < s.Len; i++ {
			b = append(b, s.Alpha[v%base])
			v /= base
		}
		return b
	case "S2":
		b := buf[:0]
		for i := 0; i < s.Len; i++ {
			b = append(b, byte('A'+(i%s.Period)*3))
		}
		return b
	case "S3":
		n := s.Pre + s.Dist + s.Rep + s.Tail
		var b []byte
		if cap(buf) >= n {
			b = buf[:n]
		} else {
			b = make([]byte, n)
		}
		if s.Fill == "lcg" {
			lcgFill(b[:s.Pre+s.Dist], uint64(s.Pre*131+s.Dist))
		} else {
			for i := 0; i < s.Pre+s.Dist; i++ {
				b[i] = 0
			}
			// the marker: 12 distinctive bytes at the start of the repeated region, then zeros
			m := b[s.Pre : s.Pre+s.Dist]
			for i := 0; i < len(m) && i < 12; i++ {
				m[i] = byte(0xA1 + i*7)
			}
			// make the byte just before the marker differ from the byte before the repeat
			if s.Pre > 0 {
				b[s.Pre-1] = 0x55
			}
		}
		for i := 0; i < s.Rep; i++ {
			p := s.Pre + s.Dist + i
			b[p] = b[p-s.Dist]
		}
		t := b[s.Pre+s.Dist+s.Rep:]
		lcgFill(t, uint64(s.Tail+7))
		if len(t) > 0 && s.Rep > 0 {
			// the first tail byte must break the match
			q := s.Pre + s.Dist + s.Rep
			if b[q] == b[q-s.Dist] {
				b[q] ^= 0x5A
			}
		}
		return b
	case "S6":
		b := buf[:0]
		b = append(b, 'x')
		for i := 0; i < s.Rep; i++ {
			b = append(b, 'a')
		}
		t := make([]byte, s.Tail)
		lcgFill(t, uint64(s.Rep)+1)
		if len(t) > 0 && t[0] == 'a' {
			t[0] = 'b'
		}
		return append(b, t...)
	case "S5":
		// incompressible prefix of exactly Pre bytes, then a repeat of 24 bytes found Dist back, then a tail
		n := s.Pre + 24 + s.Tail
		b := make([]byte, n)
		lcgFill(b[:s.Pre], uint64(s.Pre))
		copy(b[s.Pre:], b[s.Pre-s.Dist:s.Pre-s.Dist+24])
		lcgFill(b[s.Pre+24:], 99)
		return b
	case "S4":
		var b []byte
		if cap(buf) >= s.Len {
			b = buf[:s.Len]
		} else {
			b = make([]byte, s.Len)
		}
		switch s.Content {
		case "zeros":
			for i := range b {
				b[i] = 0
			}
		case "p7":
			for i := range b {
				b[i] = byte('a' + i%7)
			}
		case "lcg":
			lcgFill(b, uint64(s.Len))
		case "rep65535", "rep65536", "rep65537":
			// an incompressible chunk repeated at a stride at the window edge
			stride := map[string]int{"rep65535": 65535, "rep65536": 65536, "rep65537": 65537}[s.Content]
			lcgFill(b[:min(stride, len(b))], 4242)
			for i := stride; i < len(b); i++ {
				b[i] = b[i-stride]
			}
		case "text":
			const words = "the quick brown fox jumps over the lazy dog and runs away from the farmer who shouts loudly "
			x := uint64(12345)
			for i := 0; i < len(b); {
				x = x*6364136223846793005 + 1442695040888963407
				w := int(x>>33) % (len(words) - 12)
				l := 3 + int(x>>50)%9
				i += copy(b[i:], words[w:w+l])
			}
		}
		return b
	}
	panic("unknown family " + s.Fam)
}

// hcProbeBoundaries lists the literal-run lengths L <= max with (L-15)%255 == 0 that are probe
// positions of a match-free scan starting at 0 with step 1+(si>>7) (the HC compressor's skip
// strategy); the first few are 1 441 785 and 2 544 660.
type probeBoundary struct {
	pos   int
	dists []int // distances back to earlier probe positions inside the 64 KiB window
}

func hcProbeBoundaries(max int) []probeBoundary {
	var out []probeBoundary
	var probes []int
	for si := 0; si <= max; si += 1 + si>>7 {
		if si >= 15 && (si-15)%255 == 0 && si > 4096 {
			pb := probeBoundary{pos: si}
			for k := len(probes) - 1; k >= 0 && si-probes[k] < 65536; k-- {
				pb.dists = append(pb.dists, si-probes[k])
			}
			out = append(out, pb)
		}
		probes = append(probes, si)
	}
	return out
}

type srcEmit func(s srcSpec, src []byte)

func enumSources(c *ev.Ctx, heavy bool, emit srcEmit) {
	buf := make([]byte, 0, 5<<20)
	// S4 large sources first, then S3, so that reused compressors carry positions from high
	// 64 KiB segments into the small cases that follow.
	s4lens := []int{65535, 65536, 65537, 131071, 131072, 131073}
	if c.Thorough() {
		s4lens = append(s4lens, 1<<20, 4<<20-1, 4<<20)
	} else {
		s4lens = append(s4lens, 1<<20)
	}
	// S5: literal runs whose length is a length-code boundary (15+255k) AND a position the HC
	// compressor's accelerating probe sequence (si += 1 + (si-anchor)>>7) actually visits, so that
	// a match can start right after them; plus the same for the fast compressor's step.
	for _, pb := range hcProbeBoundaries(3 << 20) {
		for _, dist := range pb.dists {
			if !c.Next() {
				continue
			}
			s := srcSpec{Fam: "S5", Pre: pb.pos, Dist: dist, Tail: 40}
			emit(s, s.build(buf))
		}
	}
	// S6: one byte, a run of R equal bytes, an incompressible tail — every R up to 1100, so that the
	// match ends exactly where the tail begins and its length takes every value across the
	// length-code boundaries 19+255k
	for r := 0; r <= 1100; r++ {
		if !c.Next() {
			continue
		}
		s := srcSpec{Fam: "S6", Rep: r, Tail: 16}
		emit(s, s.build(buf))
	}
	for _, n := range []int{131073, 200000, 262144} {
		for _, ct := range []string{"rep65535", "rep65536", "rep65537"} {
			if !c.Next() {
				continue
			}
			s := srcSpec{Fam: "S4", Len: n, Content: ct}
			emit(s, s.build(buf))
		}
	}
	for _, n := range s4lens {
		for _, ct := range []string{"zeros", "p7", "lcg", "text"} {
			if !c.Next() {
				continue
			}
			s := srcSpec{Fam: "S4", Len: n, Content: ct}
			emit(s, s.build(buf))
		}
	}
	// S3 window grid
	dists := []int{1, 4, 8, 16, 255, 256, 65534, 65535, 65536, 65537, 131072}
	reps := []int{4, 5, 19, 20, 274}
	tails := []int{0, 5, 11, 12, 13}
	pres := []int{0, 1, 15, 270, 526, 65531}
	if c.Thorough() {
		dists = []int{1, 2, 3, 4, 5, 7, 8, 15, 16, 17, 18, 19, 254, 255, 256, 65533, 65534, 65535, 65536, 65537, 65538, 131070, 131071, 131072, 131073, 131074}
		reps = []int{3, 4, 5, 8, 12, 18, 19, 20, 33, 273, 274, 275, 529}
		tails = []int{0, 1, 2, 3, 4, 5, 6, 7, 8, 9, 10, 11, 12, 13, 14, 15, 16}
		pres = []int{0, 1, 13, 14, 15, 16, 270, 271, 65531, 65536, 131077}
	}
	for _, fill := range []string{"zeros", "lcg"} {
		for _, d := range dists {
			for _, r := range reps {
				for _, t := range tails {
					for _, p := range pres {
						if !c.Next() {
							continue
						}
						if fill == "lcg" && !c.Thorough() && d > 65537 {
							continue
						}
						s := srcSpec{Fam: "S3", Pre: p, Dist: d, Rep: r, Tail: t, Fill: fill}
						emit(s, s.build(buf))
					}
				}
			}
		}
	}
	if heavy {
		return
	}
	// S2 periodic
	for p := 1; p <= 24; p++ {
		for n := 0; n <= 320; n++ {
			if !c.Next() {
				continue
			}
			s := srcSpec{Fam: "S2", Period: p, Len: n}
			emit(s, s.build(buf))
		}
	}
	// S1 all strings over small alphabets
	L2, L3 := 18, 10
	if c.Thorough() {
		L2, L3 = 21, 12
		if c.Prop == "C11" {
			L2, L3 = 19, 11 // the geometry sweep multiplies every source by ~80 destination lengths
		}
	}
	for n := 0; n <= L2; n++ {
		for v := uint64(0); v < 1<<uint(n); v++ {
			if !c.Next() {
				continue
			}
			s := srcSpec{Fam: "S1", Len: n, Bits: v, Alpha: "01"}
			emit(s, s.build(buf))
		}
	}
	pow3 := uint64(1)
	for n := 0; n <= L3; n++ {
		for v := uint64(0); v < pow3; v++ {
			if !c.Next() {
				continue
			}
			s := srcSpec{Fam: "S1", Len: n, Bits: v, Alpha: "abc"}
			emit(s, s.build(buf))
		}
		pow3 *= 3
	}
}

// ---- compressor configurations ---------------------------------------------------------------

type compCfg struct {
	Algo  string `json:"algo"`  // fast | hc
	Via   string `json:"via"`   // pkg | fresh | reused
	Depth uint32 `json:"depth"` // hc only
}

func (k compCfg) String() string {
	if k.Algo == "fast" {
		return "fast/" + k.Via
	}
	return fmt.Sprintf("hc(%d)/%s", k.Depth, k.Via)
}

type compObjs struct {
	fast lz4.Compressor
	hc   lz4.CompressorHC
}

func (o *compObjs) compress(k compCfg, src, dst []byte) (n int, err error, panicMsg string) {
	defer func() {
		if r := recover(); r != nil {
			panicMsg = fmt.Sprint(r)
		}
	}()
	switch {
	case k.Algo == "fast" && k.Via == "pkg":
		n, err = lz4.CompressBlock(src, dst, nil)
	case k.Algo == "fast" && k.Via == "fresh":
		var c lz4.Compressor
		n, err = c.CompressBlock(src, dst)
	case k.Algo == "fast":
		n, err = o.fast.CompressBlock(src, dst)
	case k.Via == "pkg":
		n, err = lz4.CompressBlockHC(src, dst, lz4.CompressionLevel(k.Depth), nil, nil)
	case k.Via == "fresh":
		c := lz4.CompressorHC{Level: lz4.CompressionLevel(k.Depth)}
		n, err = c.CompressBlock(src, dst)
	default:
		o.hc.Level = lz4.CompressionLevel(k.Depth)
		n, err = o.hc.CompressBlock(src, dst)
	}
	return
}

func hcDepths(c *ev.Ctx, big bool) []uint32 {
	if c.Thorough() && big {
		return []uint32{1, 4, 1 << 8, 1 << 10}
	}
	if c.Thorough() {
		return []uint32{0, 1, 2, 3, 4, 16, 1 << 8, 1 << 9, 1 << 10, 1 << 11, 1 << 12, 1 << 13, 1 << 14, 1 << 15, 1 << 16, 65537, 1 << 20, 1<<32 - 1}
	}
	if big {
		// unlimited depth is quadratic on repetitive sources of this size
		return []uint32{1, 1 << 8}
	}
	return []uint32{0, 1, 1 << 8}
}

// geometry: destination as a sub-slice big[off:off+len:off+cap] with canaries around.
type geom struct {
	Len   int `json:"len"`
	Spare int `json:"spare"`
}

const bCanary = 96

type dstBuf struct{ big []byte }

func (d *dstBuf) get(g geom) (dst []byte) {
	need := bCanary + g.Len + g.Spare + bCanary
	if cap(d.big) < need {
		d.big = make([]byte, need+need/2)
	}
	b := d.big[:need]
	for i := 0; i < bCanary; i++ {
		b[i] = 0xC3
	}
	for i := bCanary + g.Len; i < need; i++ {
		b[i] = 0xC3
	}
	return b[bCanary : bCanary+g.Len : bCanary+g.Len+g.Spare]
}

func (d *dstBuf) canaryOK(g geom) bool {
	need := bCanary + g.Len + g.Spare + bCanary
	b := d.big[:need]
	for i := 0; i < bCanary; i++ {
		if b[i] != 0xC3 {
			return false
		}
	}
	for i := bCanary + g.Len; i < need; i++ {
		if b[i] != 0xC3 {
			return false
		}
	}
	return true
}

type blockCase struct {
	Src  srcSpec `json:"src"`
	Cfg  compCfg `json:"cfg"`
	Geom geom    `json:"geom"`
	Hist string  `json:"hist,omitempty"`
}

func lenClass(n int) string {
	switch {
	case n == 0:
		return "len=0"
	case n <= 12:
		return "len<=12"
	case n <= 16:
		return "len 13..16"
	case n < 65536:
		return "len<64K"
	}
	return "len>=64K"
}

type blockEnv struct {
	objs   compObjs
	dst    dstBuf
	dec    []byte
	refOut map[string][]byte
}

// checkOne compresses once and applies the oracle of prop. It returns the output (a view
// valid until the next call) for the caller's cross-configuration comparison.
func (e *blockEnv) checkOne(prop string, k blockCase, src []byte) (out []byte, n int, f *ev.Finding) {
	bound := lz4.CompressBlockBound(len(src))
	dst := e.dst.get(k.Geom)
	n, err, pmsg := e.objs.compress(k.Cfg, src, dst)
	mk := func(sig, what string) *ev.Finding {
		return &ev.Finding{Sig: sig, What: fmt.Sprintf("%s; %s src=%+v geom=%+v", what, k.Cfg, k.Src, k.Geom), Case: k}
	}
	algo := k.Cfg.Algo
	geomCls := "dst>=bound"
	if k.Geom.Len < bound {
		geomCls = "dst<bound"
	}
	spareCls := ""
	if k.Geom.Spare > 0 {
		spareCls = " spare-capacity"
	}
	if pmsg != "" {
		return nil, 0, mk(fmt.Sprintf("%s compressor panics; %s%s", algo, geomCls, spareCls), pmsg)
	}
	if !e.dst.canaryOK(k.Geom) {
		return nil, n, mk(fmt.Sprintf("%s compressor writes outside len(dst); %s%s", algo, geomCls, spareCls), fmt.Sprintf("n=%d len(dst)=%d", n, k.Geom.Len))
	}
	if n > k.Geom.Len {
		return nil, n, mk(fmt.Sprintf("%s compressor returns n > len(dst); %s%s", algo, geomCls, spareCls), fmt.Sprintf("n=%d len(dst)=%d", n, k.Geom.Len))
	}
	if n < 0 {
		return nil, n, mk(algo+" compressor returns a negative count", fmt.Sprint(n))
	}
	if k.Geom.Len >= bound {
		if n <= 0 || err != nil {
			return nil, n, mk(fmt.Sprintf("%s compressor fails although len(dst) >= CompressBlockBound; %s", algo, lenClass(len(src))), fmt.Sprintf("n=%d err=%v", n, err))
		}
	}
	if n == 0 {
		return nil, 0, nil
	}
	out = dst[:n]
	switch prop {
	case "C01", "C11":
		dec, st := ref.Decode(out, nil, len(src))
		if st != ref.OK || !bytes.Equal(dec, src) {
			return out, n, mk(fmt.Sprintf("%s compressor output does not decode to the source (reference decoder: %s); %s %s", algo, st, lenClass(len(src)), geomCls), "")
		}
		if prop == "C01" {
			if cap(e.dec) < len(src) {
				e.dec = make([]byte, len(src)+len(src)/2+16)
			}
			d := e.dec[:len(src)]
			for i := range d {
				d[i] = 0xEE
			}
			m, derr := lz4.UncompressBlock(out, d)
			if derr != nil || m != len(src) || !bytes.Equal(d[:m], src) {
				return out, n, mk(fmt.Sprintf("UncompressBlock(CompressBlock(x)) != x for %s; %s", algo, lenClass(len(src))), fmt.Sprintf("m=%d err=%v", m, derr))
			}
			g := lz4.VerifDecodeGo(d, out, nil)
			if g != len(src) || !bytes.Equal(d[:len(src)], src) {
				return out, n, mk(fmt.Sprintf("portable decoder does not restore the source for %s; %s", algo, lenClass(len(src))), fmt.Sprintf("m=%d", g))
			}
		}
	case "C10":
		if v := ref.ValidateStrict(out, len(src)); v != "" {
			return out, n, mk(fmt.Sprintf("%s compressor emits a block that is not strictly valid: %s; %s", algo, v, geomCls), "")
		}
		dec, st := ref.Decode(out, nil, len(src))
		if st != ref.OK || !bytes.Equal(dec, src) {
			return out, n, mk(fmt.Sprintf("%s compressor output does not decode to the source (reference decoder: %s); %s %s", algo, st, lenClass(len(src)), geomCls), "")
		}
	}
	return out, n, nil
}

func geometries(prop string, n, bound int, thorough bool, extra ...int) []geom {
	switch prop {
	case "C01", "C14":
		return []geom{{bound, 0}, {bound + 7, 9}}
	case "C10":
		gs := []geom{{bound, 0}}
		for _, l := range []int{n, n - 1, n / 2, bound - 1, n/2 + 3} {
			if l > 0 && l < bound {
				gs = append(gs, geom{l, 0})
			}
		}
		return gs
	}
	// C11
	var lens []int
	for _, e := range extra {
		// destination lengths around the end of a long literal run (token + length bytes + literals)
		for d := -2; d <= 4; d++ {
			if l := e + d; l >= 0 {
				lens = append(lens, l)
			}
		}
	}
	if n <= 64 && (thorough || n <= 24) {
		for l := 0; l <= bound+2; l++ {
			lens = append(lens, l)
		}
	} else {
		seen := map[int]bool{}
		for _, l := range []int{0, 1, n / 4, n / 2, n - 1, n, n + 1, bound - 1, bound, bound + 1} {
			if l >= 0 && !seen[l] {
				seen[l] = true
				lens = append(lens, l)
			}
		}
	}
	var gs []geom
	for i, l := range lens {
		gs = append(gs, geom{l, []int{0, 1, 64}[i%3]})
		if n > 64 || l == bound || l == n {
			gs = append(gs, geom{l, []int{0, 1, 64}[(i+1)%3]}, geom{l, []int{0, 1, 64}[(i+2)%3]})
		}
	}
	return gs
}

func blockEnumRun(prop string) func(c *ev.Ctx) {
	return func(c *ev.Ctx) {
		env := &blockEnv{}
		var idx int64
		var keep [][]byte
		fams := map[string]int64{}
		sigSeen := map[string]bool{}
		enumSources(c, false, func(s srcSpec, src []byte) {
			idx++
			big := len(src) >= 65535
			fams[s.Fam]++
			if fams[s.Fam] == 50 {
				c.Sample(s)
			}
			bound := lz4.CompressBlockBound(len(src))
			var cfgs []compCfg
			cfgs = append(cfgs, compCfg{Algo: "fast", Via: "reused"}, compCfg{Algo: "fast", Via: "pkg"})
			if idx%8 == 0 || big {
				cfgs = append(cfgs, compCfg{Algo: "fast", Via: "fresh"})
			}
			hcOK := c.Thorough() || s.Fam != "S1" || (s.Alpha == "01" && s.Len <= 16) || (s.Alpha == "abc" && s.Len <= 9)
			depths := hcDepths(c, big)
			if prop == "C11" && c.Thorough() && !big {
				depths = []uint32{0, 1, 1 << 8, 65537}
			}
			for _, d := range depths {
				if !hcOK {
					break // quick tier: HC pays a 1 MiB table clear per call; the longest S1 strings run on the fast compressor only
				}
				cfgs = append(cfgs, compCfg{Algo: "hc", Via: "reused", Depth: d})
				if idx%4 == 0 {
					cfgs = append(cfgs, compCfg{Algo: "hc", Via: "pkg", Depth: d})
				}
				if idx%16 == 0 || (big && d == 0) {
					cfgs = append(cfgs, compCfg{Algo: "hc", Via: "fresh", Depth: d})
				}
			}
			if prop == "C11" && big && s.Fam == "S4" && len(src) > 200000 {
				return // geometry sweeps over MiB-sized sources add nothing over S3
			}
			var litEnds []int
			if prop == "C11" && s.Fam == "S3" && s.Pre >= 15 && s.Pre < 4096 {
				litEnds = []int{s.Pre, s.Pre + 12} // zeros filler: the first match starts right at / shortly after the marker
			}
			for _, g := range geometries(prop, len(src), bound, c.Thorough(), litEnds...) {
				keep = keep[:0]
				var first = map[string]int{}
				for _, cfg := range cfgs {
					if prop == "C11" && cfg.Via != "reused" {
						continue
					}
					k := blockCase{Src: s, Cfg: cfg, Geom: g}
					c.Eval(1)
					if len(src) >= 13 {
						c.Distinct(1)
					}
					t0 := time.Now()
					out, n, f := env.checkOne(prop, k, src)
					c.Add("ns_"+s.Fam+"_"+cfg.Algo, int64(time.Since(t0)))
					if f != nil {
						if sigSeen[f.Sig] {
							c.Report(f) // counted; already confirmed once
							continue
						}
						sigSeen[f.Sig] = true
						repro := true
						for i := 0; i < 5 && repro; i++ {
							e2 := &blockEnv{}
							_, _, g := e2.checkOne(prop, k, k.Src.build(nil))
							repro = g != nil && g.Sig == f.Sig
						}
						if !repro {
							if cfg.Via == "fresh" {
								c.Machinery("non-deterministic verdict for %+v: %s", k, f.Sig)
								continue
							}
							// the failure was observed, but only with this object's/pool's history
							f.Sig += " [only after earlier compressions on the same object or pool]"
						}
						c.Report(f)
						continue
					}
					if n > 0 && n < len(src) {
						c.Add("compressed_smaller", 1)
					}
					if prop == "C14" {
						key := fmt.Sprintf("%s/%d", cfg.Algo, cfg.Depth)
						if j, ok := first[key]; ok {
							if !bytes.Equal(keep[j], out) {
								kk := k
								c.Report(&ev.Finding{Sig: fmt.Sprintf("%s compressor output depends on the compressor object's or the pool's history (%s differs)", cfg.Algo, cfg.Via),
									What: fmt.Sprintf("%s vs first config; src=%+v", cfg, s), Case: kk})
							}
						} else {
							first[key] = len(keep)
							keep = append(keep, append([]byte(nil), out...))
						}
					}
				}
			}
		})
		for k, v := range fams {
			c.Add("sources_"+k, v)
		}
		c.Flag("exhaustive", true)
		if prop == "C14" {
			c14Histories(c, env)
		}
	}
}

// c14Histories: explicit histories on fresh objects. H is a pool of inputs whose sizes put
// table entries into the first, second and third 64 KiB segment; every history of length
// <= 2 (thorough: 3) is followed by every probe, and the probe's output must equal the one
// of a brand-new object.
func c14Histories(c *ev.Ctx, env *blockEnv) {
	H := []srcSpec{
		{Fam: "S4", Len: 0, Content: "zeros"},
		{Fam: "S4", Len: 20, Content: "zeros"},
		{Fam: "S2", Len: 300, Period: 7},
		{Fam: "S4", Len: 70000, Content: "lcg"},
		{Fam: "S4", Len: 70000, Content: "zeros"},
		{Fam: "S4", Len: 140000, Content: "text"},
	}
	var probes []srcSpec
	for p := 1; p <= 24; p += 3 {
		for _, n := range []int{13, 20, 64, 300} {
			probes = append(probes, srcSpec{Fam: "S2", Period: p, Len: n})
		}
	}
	for v := uint64(0); v < 1<<18; v += 4099 {
		probes = append(probes, srcSpec{Fam: "S1", Len: 18, Bits: v, Alpha: "01"})
	}
	for _, d := range []int{8, 65535, 65536} {
		probes = append(probes, srcSpec{Fam: "S3", Pre: 1, Dist: d, Rep: 20, Tail: 12, Fill: "zeros"})
	}
	probes = append(probes, srcSpec{Fam: "S4", Len: 140000, Content: "text"}, srcSpec{Fam: "S4", Len: 66000, Content: "p7"})
	maxH := 2
	if c.Thorough() {
		maxH = 3
	}
	var hists [][]int
	var rec func(h []int)
	rec = func(h []int) {
		hists = append(hists, append([]int(nil), h...))
		if len(h) == maxH {
			return
		}
		for i := range H {
			rec(append(h, i))
		}
	}
	rec(nil)
	hsrc := make([][]byte, len(H))
	for i, s := range H {
		hsrc[i] = append([]byte(nil), s.build(nil)...)
	}
	psrc := make([][]byte, len(probes))
	base := map[string][]byte{}
	cfgs := []compCfg{{Algo: "fast", Via: "reused"}, {Algo: "hc", Via: "reused", Depth: 0}, {Algo: "hc", Via: "reused", Depth: 1 << 8}}
	for i, s := range probes {
		psrc[i] = append([]byte(nil), s.build(nil)...)
		for _, cfg := range cfgs {
			var o compObjs
			dst := make([]byte, lz4.CompressBlockBound(len(psrc[i])))
			n, _, _ := o.compress(cfg, psrc[i], dst)
			base[fmt.Sprintf("%d/%s", i, cfg)] = dst[:n]
		}
	}
	scratch := make([]byte, lz4.CompressBlockBound(140000))
	var transitions int64
	for hi, h := range hists {
		if !c.Mine(int64(hi)) {
			continue
		}
		for _, cfg := range cfgs {
			for pi := range probes {
				// a fresh object per (history, probe) would cost a 1 MiB allocation each for HC;
				// instead replay the history before each probe on one object: the object's state
				// before the probe is then "history after (probe, history)*", a superset of histories.
				_ = pi
			}
			var o compObjs
			for pi := range probes {
				for _, hx := range h {
					dl := lz4.CompressBlockBound(len(hsrc[hx]))
					if (hi+pi)%3 == 2 && len(hsrc[hx]) > 40 {
						dl = len(hsrc[hx]) / 3 // a call that fails half-way (destination too short) is history too
					}
					o.compress(cfg, hsrc[hx], scratch[:dl])
					transitions++
				}
				dst := scratch[:lz4.CompressBlockBound(len(psrc[pi]))]
				n, _, pmsg := o.compress(cfg, psrc[pi], dst)
				transitions++
				c.Eval(1)
				c.Distinct(1)
				c.Add("history_probe_pairs", 1)
				if pmsg != "" || !bytes.Equal(dst[:n], base[fmt.Sprintf("%d/%s", pi, cfg)]) {
					hs := fmt.Sprint(h)
					c.Report(&ev.Finding{Sig: fmt.Sprintf("%s compressor output depends on what the object compressed before", cfg.Algo),
						What: fmt.Sprintf("history %s probe %+v cfg %s", hs, probes[pi], cfg), Case: blockCase{Src: probes[pi], Cfg: cfg, Hist: hs}})
				}
			}
		}
	}
	c.Add("history_transitions", transitions)
	c.Add("histories", int64(len(hists)))
}

func blockEnumReplay(prop string) func(c *ev.Ctx) {
	return func(c *ev.Ctx) {
		var k blockCase
		if err := json.Unmarshal(c.ReplayRaw, &k); err != nil {
			c.Machinery("bad replay: %v", err)
			return
		}
		env := &blockEnv{}
		if _, _, f := env.checkOne(prop, k, k.Src.build(nil)); f != nil {
			c.Report(f)
		}
	}
}

const blockRule = "bounded-exhaustive enumeration of sources: S1 every string over {0,1} up to length 18 (thorough 21) and over {a,b,c} up to 10 (12); S2 every periodic source with period 1..24 and length 0..320; " +
	"S3 window grid pre x distance x repeat length x tail x filler (distances incl. 65534..65537, 131072; repeats incl. 19/20/274; tails 0..16; filler zeros keeps the hash tables clean so the far candidate is actually probed, filler lcg is incompressible); " +
	"S4 sources of 65535..131073 bytes and 1 MiB (thorough 4 MiB) x {zeros, period-7, lcg, text}. Each source x compressor configuration (fast / HC at several depths; package function, fresh object, reused object) x destination geometry. " +
	"Cases are distinct by construction; non-trivial = source of at least 13 bytes (shorter sources are literal-only)."

var blockAssumptions = []string{
	"ref.Decode / ref.ValidateStrict are the block specification",
	"the verdict is a coverage statement over the listed alphabets, grids and lengths, not over all byte slices",
}

func init() {
	for _, p := range []string{"C01", "C10", "C11"} {
		p := p
		ev.Register(&ev.Driver{Prop: p, Level: "exploration", Rule: blockRule, Assumptions: blockAssumptions,
			Run: blockEnumRun(p), Replay: blockEnumReplay(p)})
	}
}
