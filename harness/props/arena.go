package props

import (
	"syscall"
)

const pageSize = 4096

// arena is an mmap'ed region laid out [PROT_NONE page][data ...][PROT_NONE page]. Slices are
// handed out flush against either guard page so that any access past that end faults
// (debug.SetPanicOnFault turns the fault into a recoverable panic).
type arena struct {
	mem  []byte
	data []byte // the accessible middle
}

func newArena(dataPages int) *arena {
	size := (dataPages + 2) * pageSize
	mem, err := syscall.Mmap(-1, 0, size, syscall.PROT_READ|syscall.PROT_WRITE, syscall.MAP_ANON|syscall.MAP_PRIVATE)
	if err != nil {
		panic(err)
	}
	if err := syscall.Mprotect(mem[:pageSize], syscall.PROT_NONE); err != nil {
		panic(err)
	}
	if err := syscall.Mprotect(mem[size-pageSize:], syscall.PROT_NONE); err != nil {
		panic(err)
	}
	return &arena{mem: mem, data: mem[pageSize : size-pageSize : size-pageSize]}
}

// atEnd returns a slice of n bytes whose end coincides with the trailing guard page
// (len == cap).
func (a *arena) atEnd(n int) []byte {
	e := len(a.data)
	return a.data[e-n : e : e]
}

// atStart returns a slice of n bytes starting right after the leading guard page, with
// spare capacity.
func (a *arena) atStart(n, spare int) []byte {
	return a.data[0 : n : n+spare]
}

func (a *arena) readOnly() {
	if err := syscall.Mprotect(a.mem[pageSize:len(a.mem)-pageSize], syscall.PROT_READ); err != nil {
		panic(err)
	}
}
