package props

import (
	"bytes"
	"errors"
	"fmt"
	"io"
	"os"
	"sort"
	"strings"
	"sync"
	"sync/atomic"
	"time"

	lz4 "github.com/pierrec/lz4/v4"
	"github.com/pierrec/lz4/v4/verifsched"

	"verif/harness/ev"
	"verif/harness/ref"
)

// C08 — the concurrent pipelines under every schedule (within a preemption bound).

var errInjected = errors.New("injected I/O failure")

type budgetPanic struct{}

// schedSink is the io.Writer under the Writer. It yields to the scheduler on every call
// (optional), can fail at the k-th call, and panics past a call budget so that a runaway
// loop becomes a deterministic verdict.
type schedSink struct {
	buf     []byte
	calls   int
	failAt  int // 1-based; 0 = never
	partial bool
	yield   bool
	dead    bool
	after   int // successful writes after the failure
	h       uint64
}

func (s *schedSink) digest() uint64 { return s.h*31 + uint64(s.calls) }

func (s *schedSink) Write(p []byte) (int, error) {
	verifsched.Note("sink.Write")
	if s.yield {
		verifsched.Yield("sink.Write")
	}
	s.calls++
	if s.calls > 5000 {
		panic("sink call budget exceeded (runaway)")
	}
	if s.failAt > 0 && s.calls == s.failAt {
		s.dead = true
		n := 0
		if s.partial {
			n = len(p) / 2
			s.buf = append(s.buf, p[:n]...)
		}
		return n, errInjected
	}
	if s.dead {
		s.after++
	}
	s.buf = append(s.buf, p...)
	for _, c := range p {
		s.h = (s.h ^ uint64(c)) * 1099511628211
	}
	s.h = (s.h ^ 0x1ff) * 1099511628211
	return len(p), nil
}

type schedSource struct {
	data   []byte
	pos    int
	calls  int
	failAt int
	chunk  int // max bytes per read (0: all)
	yield  bool
}

func (s *schedSource) Read(p []byte) (int, error) {
	verifsched.Note("source.Read")
	if s.yield {
		verifsched.Yield("source.Read")
	}
	s.calls++
	if s.calls > 20000 {
		panic("source call budget exceeded (runaway)")
	}
	if s.failAt > 0 && s.calls == s.failAt {
		return 0, errInjected
	}
	if s.pos >= len(s.data) {
		return 0, io.EOF
	}
	n := len(p)
	if s.chunk > 0 && n > s.chunk {
		n = s.chunk
	}
	n = copy(p[:n], s.data[s.pos:])
	s.pos += n
	return n, nil
}

func payload(tag byte, n int) []byte {
	b := make([]byte, n)
	for i := range b {
		b[i] = tag + byte(i%23)
	}
	return b
}

// writerStep is one call on the Writer.
type writerStep struct {
	Op   string // write | flush | close | reset | readfrom
	Data []byte
}

type writerPlan struct {
	Name    string
	Conc    int
	Opts    []lz4.Option
	Steps   []writerStep
	FailAt  int
	Partial bool
	Handler bool
}

// runWriterPlan executes the plan on a fresh Writer; used both under the scheduler and,
// with conc=1 outside it, to compute the expected sink bytes.
func runWriterPlan(p *writerPlan, conc int, o *Obs, yield bool) {
	sinks := []*schedSink{{failAt: p.FailAt, partial: p.Partial, yield: yield}}
	var handled []string
	var scratch []byte
	o.AddState(func() uint64 {
		h := uint64(len(handled))
		for _, s := range sinks {
			h = h*1000003 + s.digest()
		}
		return h
	})
	w := lz4.NewWriter(sinks[0])
	opts := append([]lz4.Option{lz4.BlockSizeOption(lz4.Block64Kb), lz4.ConcurrencyOption(conc)}, p.Opts...)
	if p.Handler {
		var hmu sync.Mutex // the callback is invoked from the library's goroutines: it must be safe for concurrent use
		opts = append(opts, lz4.OnBlockDoneOption(func(n int) {
			verifsched.Note("OnBlockDone")
			hmu.Lock()
			handled = append(handled, fmt.Sprint(n))
			hmu.Unlock()
		}))
	}
	if err := w.Apply(opts...); err != nil {
		o.logf("Apply=%v", err)
	}
	for _, st := range p.Steps {
		switch st.Op {
		case "write":
			n, err := w.Write(st.Data)
			o.logf("Write=%d,%v", n, err != nil)
		case "write-reuse":
			// the caller's buffer is refilled right after Write returned (Write must not retain it)
			if scratch == nil {
				scratch = make([]byte, len(st.Data))
			}
			copy(scratch, st.Data)
			n, err := w.Write(scratch[:len(st.Data)])
			o.logf("Write=%d,%v", n, err != nil)
			for i := range scratch {
				scratch[i] = 0xEE
			}
		case "flush":
			err := w.Flush()
			o.logf("Flush=%v", err != nil)
		case "close":
			err := w.Close()
			o.logf("Close=%v", err != nil)
		case "reset":
			s := &schedSink{yield: yield}
			sinks = append(sinks, s)
			w.Reset(s)
			o.logf("Reset")
		case "readfrom":
			n, err := w.ReadFrom(&schedSource{data: st.Data})
			o.logf("ReadFrom=%d,%v", n, err != nil)
		}
	}
	for i, s := range sinks {
		o.Sink = append(o.Sink, byte(i), '|')
		o.Sink = append(o.Sink, s.buf...)
		if s.after > 0 {
			o.Notes = append(o.Notes, fmt.Sprintf("sink %d accepted %d write(s) after its failure", i, s.after))
		}
	}
	o.late = func() {
		// evaluated after every thread has finished: OnBlockDone may legitimately run in a worker
		sort.Strings(handled)
		o.Notes = append(o.Notes, "handled="+strings.Join(handled, ","))
	}
}

func writerScenario(p *writerPlan) *Scenario {
	exp := &Obs{}
	if p.FailAt == 0 {
		runWriterPlan(p, 1, exp, false) // sequential reference, outside the scheduler
	} else {
		// fault runs: expected sink bytes are a prefix of the fault-free sequential output
		q := *p
		q.FailAt = 0
		runWriterPlan(&q, 1, exp, false)
	}
	if exp.late != nil {
		exp.late()
	}
	return &Scenario{
		Name: p.Name,
		Opts: verifsched.Options{PoolYield: false},
		Body: func(o *Obs) { runWriterPlan(p, p.Conc, o, p.FailAt > 0) },
		Soft: func(o *Obs, x *verifsched.Execution) (string, string) {
			if len(x.AfterMain) > 0 && writerEndsClosed(p) {
				return "library goroutine still at work after the Writer's last call (Close) returned: " + x.AfterMain[0], fmt.Sprint(x.AfterMain)
			}
			return "", ""
		},
		Check: func(o *Obs, x *verifsched.Execution) (string, string) {
			switch x.Verdict {
			case "deadlock":
				return "a call never returns (deadlock)", ""
			case "leak":
				return "goroutine(s) left blocked after the last call returned", ""
			case "runaway":
				return "execution exceeds the operation budget (livelock)", ""
			case "panic":
				return "panic", ""
			}
			if o.late != nil {
				o.late()
				o.late = nil
			}
			if p.FailAt == 0 {
				if strings.Join(o.Log, ";") != strings.Join(exp.Log, ";") {
					return "call results differ from the sequential Writer", fmt.Sprintf("got %v want %v", o.Log, exp.Log)
				}
				if !bytes.Equal(o.Sink, exp.Sink) {
					return "sink bytes differ from the sequential Writer's (order/content)", describeDiff(o.Sink, exp.Sink)
				}
				if p.Handler && !sameNotes(o.Notes, exp.Notes) {
					return "OnBlockDone calls differ from the sequential Writer's", fmt.Sprintf("got %v want %v", o.Notes, exp.Notes)
				}
				return "", ""
			}
			// fault injected: the error must surface, nothing is written afterwards, prefix holds
			sawErr := false
			for _, l := range o.Log {
				if strings.HasSuffix(l, "true") {
					sawErr = true
				}
			}
			if !sawErr {
				return "injected sink failure is not reported by any call", fmt.Sprint(o.Log)
			}
			if !bytes.HasPrefix(exp.Sink, o.Sink) {
				return "bytes accepted by the sink before the failure are not a prefix of the fault-free output", ""
			}
			for _, n := range o.Notes {
				if strings.Contains(n, "after its failure") {
					return "the Writer keeps writing to a sink that has failed", n
				}
			}
			return "", ""
		},
	}
}

func writerEndsClosed(p *writerPlan) bool {
	return len(p.Steps) > 0 && p.Steps[len(p.Steps)-1].Op == "close"
}

func sameNotes(a, b []string) bool { return strings.Join(a, "|") == strings.Join(b, "|") }

func describeDiff(got, want []byte) string {
	i := 0
	for i < len(got) && i < len(want) && got[i] == want[i] {
		i++
	}
	return fmt.Sprintf("len got %d want %d, first difference at %d", len(got), len(want), i)
}

// ---- reader scenarios ---------------------------------------------------------------------------

type readerPlan struct {
	Name     string
	Conc     int
	Frame    []byte
	Content  []byte
	WriteTo  bool
	BufSize  int
	FailAt   int
	Chunk    int
	WantErr  string // "" clean; "any" some error; else errors.Is class name
	SinkFail bool   // WriteTo into a sink that fails at its first call (then Reset and reuse)
	Partial  int    // >0: Reset after this many Read calls instead of reading the first stream to its end
	Reuse    []byte // second frame read after Reset (nil: none)
	Reuse2   []byte // its content
}

func smallFrame(blockSum, contentSum bool, nblocks int, legacy bool) (frame, content []byte) {
	fp := ref.FramePlan{BSCode: 4, Indep: true, BlockSum: blockSum, ContentSum: contentSum, Legacy: legacy}
	for i := 0; i < nblocks; i++ {
		lit := payload(byte('a'+i*5), 9+i*7)
		if i%2 == 1 {
			fp.Blocks = append(fp.Blocks, ref.BlockPlan{Raw: !legacy, Data: lit, Decoded: lit})
			if legacy {
				bp, _ := ref.BuildBlock([]ref.Seq{{Lit: lit}}, nil)
				fp.Blocks[len(fp.Blocks)-1] = bp
			}
			continue
		}
		bp, ok := ref.BuildBlock([]ref.Seq{{Lit: lit[:6], Off: 2, MLen: 8}, {Lit: lit[6:]}}, nil)
		if !ok {
			panic("smallFrame")
		}
		fp.Blocks = append(fp.Blocks, bp)
	}
	return ref.EncodeFrame(fp)
}

func runReaderPlan(p *readerPlan, o *Obs) {
	src := &schedSource{data: p.Frame, failAt: p.FailAt, chunk: p.Chunk, yield: p.FailAt > 0}
	r := lz4.NewReader(src)
	var handled64 int64
	o.AddState(func() uint64 {
		return uint64(src.pos)*1000003 + uint64(src.calls)*7 + uint64(atomic.LoadInt64(&handled64))
	})
	if err := r.Apply(lz4.ConcurrencyOption(p.Conc), lz4.OnBlockDoneOption(func(n int) { verifsched.Note("OnBlockDone"); atomic.AddInt64(&handled64, int64(n)) })); err != nil {
		o.logf("Apply=%v", err)
	}
	readAll := func() {
		if p.WriteTo {
			var out bytes.Buffer
			n, err := r.WriteTo(&out)
			o.Out = append(o.Out, out.Bytes()...)
			o.logf("WriteTo=%d,%s", n, errClass(err))
			return
		}
		buf := make([]byte, p.BufSize)
		for i := 0; i < 10000; i++ {
			n, err := r.Read(buf)
			o.Out = append(o.Out, buf[:n]...)
			if err != nil {
				o.logf("Read=%s", errClass(err))
				// one more read must keep failing the same way
				n2, err2 := r.Read(buf)
				o.logf("ReadAgain=%d,%s", n2, errClass(err2))
				return
			}
			if n == 0 {
				o.logf("Read=0,nil")
			}
		}
		o.logf("Read never ends")
	}
	if p.SinkFail {
		n, err := r.WriteTo(&schedSink{failAt: 1})
		o.logf("WriteTo=%d,%s", n, errClass(err))
	} else if p.Partial > 0 {
		buf := make([]byte, p.BufSize)
		for i := 0; i < p.Partial; i++ {
			n, err := r.Read(buf)
			o.Out = append(o.Out, buf[:n]...)
			o.logf("Read=%d,%s", n, errClass(err))
		}
	} else {
		readAll()
	}
	if p.Reuse != nil {
		o.Out = append(o.Out, '|')
		r.Reset(&schedSource{data: p.Reuse})
		readAll()
	}
}

func errClass(err error) string {
	switch {
	case err == nil:
		return "nil"
	case err == io.EOF:
		return "EOF"
	case errors.Is(err, errInjected):
		return "injected"
	case errors.Is(err, io.ErrUnexpectedEOF):
		return "unexpectedEOF"
	case errors.Is(err, io.EOF):
		return "wrappedEOF"
	case errors.Is(err, lz4.ErrInvalidBlockChecksum):
		return "blocksum"
	case errors.Is(err, lz4.ErrInvalidFrameChecksum):
		return "framesum"
	case errors.Is(err, lz4.ErrInvalidSourceShortBuffer):
		return "badblock"
	case errors.Is(err, lz4.ErrOptionInvalidBlockSize):
		return "blocksize"
	case errors.Is(err, lz4.ErrInvalidFrame):
		return "badmagic"
	case errors.Is(err, lz4.ErrInvalidHeaderChecksum):
		return "headersum"
	}
	return "other(" + err.Error() + ")"
}

func readerScenario(p *readerPlan) *Scenario {
	return &Scenario{
		Name: p.Name,
		Body: func(o *Obs) { runReaderPlan(p, o) },
		Soft: func(o *Obs, x *verifsched.Execution) (string, string) {
			if len(x.AfterMain) > 0 {
				return "library goroutine still at work after the Reader reported the end of the stream or an error: " + x.AfterMain[0], fmt.Sprint(x.AfterMain)
			}
			return "", ""
		},
		Check: func(o *Obs, x *verifsched.Execution) (string, string) {
			switch x.Verdict {
			case "deadlock":
				return "a call never returns (deadlock)", ""
			case "leak":
				return "goroutine(s) left blocked after the Reader reported the end or an error", ""
			case "runaway":
				return "execution exceeds the operation budget (livelock)", ""
			case "panic":
				return "panic", ""
			}
			want := p.Content
			if p.Reuse != nil {
				want = append(append(append([]byte{}, p.Content...), '|'), p.Reuse2...)
			}
			if p.SinkFail {
				if len(o.Log) == 0 || !strings.Contains(o.Log[0], "injected") {
					return "WriteTo does not return the sink's error", fmt.Sprint(o.Log)
				}
				i := bytes.IndexByte(o.Out, '|')
				if i < 0 || !bytes.Equal(o.Out[i+1:], p.Reuse2) {
					return "after a failed WriteTo and a Reset the next stream decodes to other bytes", ""
				}
				for _, l := range o.Log[1:] {
					if !(strings.HasSuffix(l, "EOF") || strings.HasSuffix(l, ",nil")) || strings.Contains(l, "unexpected") || strings.Contains(l, "wrapped") {
						return "after a failed WriteTo and a Reset the next stream does not end cleanly", fmt.Sprint(o.Log)
					}
				}
				return "", ""
			}
			if p.Partial > 0 {
				// the first stream is abandoned after Partial reads: whatever was delivered must be
				// a prefix of it, and the second stream must be complete and clean
				i := bytes.IndexByte(o.Out, '|')
				if i < 0 || !bytes.HasPrefix(p.Content, o.Out[:i]) {
					return "bytes delivered before Reset are not a prefix of the first stream", ""
				}
				if !bytes.Equal(o.Out[i+1:], p.Reuse2) {
					return "after a Reset in the middle of a stream the next stream decodes to other bytes", describeDiff(o.Out[i+1:], p.Reuse2)
				}
				for _, l := range o.Log[p.Partial:] {
					if !(strings.HasSuffix(l, "EOF") || strings.HasSuffix(l, ",nil")) || strings.Contains(l, "unexpected") || strings.Contains(l, "wrapped") {
						return "after a Reset in the middle of a stream the next stream does not end cleanly", fmt.Sprint(o.Log)
					}
				}
				return "", ""
			}
			last := ""
			if len(o.Log) > 0 {
				last = o.Log[0]
			}
			clean := strings.HasSuffix(last, "EOF") && !strings.Contains(last, "unexpected") && !strings.Contains(last, "wrapped") || strings.HasSuffix(last, ",nil")
			if p.WantErr == "" {
				if !bytes.Equal(o.Out, want) {
					return "decoded output differs from the content (order/content)", describeDiff(o.Out, want)
				}
				for _, l := range o.Log {
					if !(strings.HasSuffix(l, "EOF") || strings.HasSuffix(l, ",nil")) || strings.Contains(l, "unexpected") || strings.Contains(l, "wrapped") {
						return "valid frame does not end cleanly", fmt.Sprint(o.Log)
					}
				}
				return "", ""
			}
			if clean {
				return "corrupt or failing input ends cleanly", fmt.Sprint(o.Log)
			}
			if !bytes.HasPrefix(want, o.Out) {
				return "bytes delivered before the error are not a prefix of the content", describeDiff(o.Out, want)
			}
			if p.WantErr != "any" && !strings.Contains(last, p.WantErr) {
				return "wrong error class: want " + p.WantErr, fmt.Sprint(o.Log)
			}
			return "", ""
		},
	}
}

func c08Scenarios(thorough bool) []*Scenario {
	a, b, cc := payload('A', 17), payload('N', 29), payload('a', 11)
	big := make([]byte, 65536+1)
	for i := range big {
		big[i] = byte(i % 251)
	}
	big2 := make([]byte, 2*65536+1)
	for i := range big2 {
		big2[i] = byte(i % 13)
	}
	var scs []*Scenario
	W := func(p *writerPlan) { scs = append(scs, writerScenario(p)) }
	wr := func(d []byte) writerStep { return writerStep{Op: "write", Data: d} }
	fl, cl, rs := writerStep{Op: "flush"}, writerStep{Op: "close"}, writerStep{Op: "reset"}
	W(&writerPlan{Name: "W1", Conc: 2, Steps: []writerStep{wr(a), fl, wr(b), cl}})
	W(&writerPlan{Name: "W2", Conc: 2, Steps: []writerStep{wr(a), fl, wr(b), fl, wr(cc), cl}})
	W(&writerPlan{Name: "W2c3", Conc: 3, Steps: []writerStep{wr(a), fl, wr(b), fl, wr(cc), cl}})
	W(&writerPlan{Name: "W3", Conc: 2, Steps: []writerStep{wr(big), cl}})
	W(&writerPlan{Name: "W4", Conc: 2, Steps: []writerStep{{Op: "readfrom", Data: big2}, cl}})
	W(&writerPlan{Name: "W7", Conc: 2, Handler: true, Opts: []lz4.Option{lz4.BlockChecksumOption(true)}, Steps: []writerStep{wr(a), fl, wr(b), fl, wr(cc), cl}})
	blockA, blockB := make([]byte, 65536), make([]byte, 65536)
	for i := range blockA {
		blockA[i], blockB[i] = byte(i%7), byte(i%11+100)
	}
	rawData := make([]byte, 2*65536+1)
	lcgFill(rawData, 77)
	W(&writerPlan{Name: "W9", Conc: 2, Steps: []writerStep{wr(rawData), cl}})
	W(&writerPlan{Name: "W8", Conc: 2, Steps: []writerStep{{Op: "write-reuse", Data: blockA}, {Op: "write-reuse", Data: blockB}, cl}})
	W(&writerPlan{Name: "W6a", Conc: 2, Steps: []writerStep{wr(a), cl, rs, wr(b), cl}})
	W(&writerPlan{Name: "W6b", Conc: 2, Steps: []writerStep{wr(a), cl, cl}})
	W(&writerPlan{Name: "W6c", Conc: 2, Steps: []writerStep{wr(a), fl, rs, wr(b), cl}})
	// W5: sink failing at call k, for every k of the fault-free run
	for _, base := range []*writerPlan{
		{Name: "W5-flush", Conc: 2, Steps: []writerStep{wr(a), fl, wr(b), cl}},
		{Name: "W5-big", Conc: 2, Steps: []writerStep{wr(big), cl}},
	} {
		probe := &Obs{}
		s := &schedSink{}
		_ = s
		q := *base
		runWriterPlan(&q, 1, probe, false)
		ncalls := countSinkCalls(&q)
		for k := 1; k <= ncalls; k++ {
			for _, partial := range []bool{false, true} {
				if partial && !thorough && k > 2 {
					continue
				}
				p := *base
				p.FailAt, p.Partial = k, partial
				p.Name = fmt.Sprintf("%s-k%d-p%v", base.Name, k, partial)
				W(&p)
			}
		}
	}
	// readers
	f3, c3 := smallFrame(true, true, 3, false)
	R := func(p *readerPlan) { scs = append(scs, readerScenario(p)) }
	R(&readerPlan{Name: "R1", Conc: 2, Frame: f3, Content: c3, BufSize: 16})
	R(&readerPlan{Name: "R1c3", Conc: 3, Frame: f3, Content: c3, BufSize: 16})
	R(&readerPlan{Name: "R2", Conc: 2, Frame: f3, Content: c3, WriteTo: true})
	// R3: block j corrupted
	p3, _ := ref.Parse(f3, ref.Opts{})
	for j := 0; j < 3; j++ {
		for _, kind := range []string{"bsum", "bdata", "bsize"} {
			for _, wt := range []bool{false, true} {
				m := append([]byte(nil), f3...)
				for _, fd := range p3.Fields {
					if fd.Block == j && fd.Kind == kind {
						switch kind {
						case "bsum":
							m[fd.Off] ^= 0x01
						case "bdata":
							if p3.Blocks[j].Raw {
								m[fd.Off+1] ^= 0x40 // payload bit: caught by the block checksum
							} else {
								m[fd.Off+7] = 0 // offset low byte -> zero offset
								m[fd.Off+8] = 0
							}
						case "bsize":
							m[fd.Off+3] = 0x7F // oversize
						}
					}
				}
				R(&readerPlan{Name: fmt.Sprintf("R3-b%d-%s-wt%v", j, kind, wt), Conc: 2, Frame: m, Content: c3, BufSize: 16, WriteTo: wt, WantErr: "any"})
			}
		}
	}
	// R4: source failing at call k
	for k := 1; k <= 12; k++ {
		R(&readerPlan{Name: fmt.Sprintf("R4-k%d", k), Conc: 2, Frame: f3, Content: c3, BufSize: 16, FailAt: k, WantErr: "injected"})
	}
	// R5: content checksum mismatch; missing end mark; legacy
	m := append([]byte(nil), f3...)
	m[len(m)-1] ^= 0x80
	R(&readerPlan{Name: "R5-csum", Conc: 2, Frame: m, Content: c3, BufSize: 64, WantErr: "framesum"})
	R(&readerPlan{Name: "R5-noend", Conc: 2, Frame: f3[:len(f3)-8], Content: c3, BufSize: 64, WantErr: "any"})
	fl2, cl2 := smallFrame(false, false, 2, true)
	R(&readerPlan{Name: "R5-legacy", Conc: 2, Frame: fl2, Content: cl2, BufSize: 64})
	// R6: reuse
	f2, c2 := smallFrame(false, true, 2, false)
	R(&readerPlan{Name: "R6", Conc: 2, Frame: f3, Content: c3, BufSize: 64, Reuse: f2, Reuse2: c2})
	// R7: Reset in the middle of a stream
	R(&readerPlan{Name: "R8", Conc: 2, Frame: f3, Content: c3, BufSize: 64, SinkFail: true, Reuse: f2, Reuse2: c2})
	R(&readerPlan{Name: "R7", Conc: 2, Frame: f3, Content: c3, BufSize: 5, Partial: 1, Reuse: f2, Reuse2: c2})
	return scs
}

// c08RacePass: the auxiliary free-running pass of the "no data races" clause. The same scenario
// bodies run with real goroutines in a binary built with -race (GORACE=halt_on_error=1): a report
// kills the worker with the race detector's exit code and the parent turns it into a violation.
// This is sampling (the cooperative scheduler's hand-offs would hide races from the detector), so
// it is reported separately in the evidence and never decides anything by its silence.
func c08RacePass(c *ev.Ctx) {
	runs := 40
	if c.Thorough() {
		runs = 300
	}
	var n int64
	for i, sc := range c08Scenarios(false) {
		if !c.Mine(int64(i)) {
			continue
		}
		for r := 0; r < runs; r++ {
			o := &Obs{}
			if !raceBody(c, "scenario "+sc.Name, func() { sc.Body(o) }) {
				c.Add("aux_race_runs", n)
				return
			}
			n++
		}
	}
	// free-form bodies that are too large for exhaustive exploration but fine for the detector:
	// more blocks, concurrency 4, reuse cycles, errors in the middle
	big := inputSpec{6*65536 + 11, "p7"}.build()
	o4 := wopts{BS: 65536, BSum: true, CSum: true, Conc: 4}
	frame6, _ := produceFrame(wopts{BS: 65536, BSum: true, CSum: true, Conc: 1}, big, delivery{Kind: "write"})
	bad := append([]byte(nil), frame6...)
	if len(bad) > 700 {
		bad[len(bad)/2] ^= 0x10
	}
	lf, _ := smallFrame(false, false, 3, true)
	// several damaged blocks, so that more than one block goroutine reports an error at a time
	bad3 := append([]byte(nil), frame6...)
	if p6, err := ref.Parse(frame6, ref.Opts{}); err == nil {
		for _, bi := range p6.Blocks {
			bad3[bi.Off+4+bi.Stored/2] ^= 0x04
		}
	}
	bodies := []func(){
		func() {
			r := lz4.NewReader(bytes.NewReader(bad3))
			r.Apply(lz4.ConcurrencyOption(4))
			io.Copy(io.Discard, r)
			r.Reset(bytes.NewReader(bad3))
			r.Read(make([]byte, 10)) // errors are in flight while the Reader is Reset
			r.Reset(bytes.NewReader(frame6))
			io.Copy(io.Discard, r)
		},
		func() { produceFrame(o4, big, delivery{Kind: "readfrom", Frag: 4}) },
		func() { produceFrame(o4, big, delivery{Kind: "write", Cuts: []int{1, 65536, 200000}, Flush: 5}) },
		func() {
			w := lz4.NewWriter(io.Discard)
			var mu sync.Mutex
			total := 0
			w.Apply(lz4.BlockSizeOption(lz4.Block64Kb), lz4.ConcurrencyOption(4), lz4.BlockChecksumOption(true), lz4.OnBlockDoneOption(func(n int) { mu.Lock(); total += n; mu.Unlock() }))
			for f := 0; f < 3; f++ {
				w.Write(big[:100000])
				w.Flush()
				w.Write(big[100000:])
				w.Close()
				w.Reset(io.Discard)
			}
			w.Write(big[:70000]) // abandoned frame
			w.Reset(io.Discard)
			w.Write(big[:10])
			w.Close()
		},
		func() { readBack(bytes.NewReader(frame6), readPattern{Sizes: [2]int{7, 70000}, Conc: 4}, 1<<20) },
		func() { readBack(bytes.NewReader(frame6), readPattern{WriteTo: true, Conc: 4}, 1<<20) },
		func() { readBack(bytes.NewReader(lf), readPattern{Sizes: [2]int{5, 5}, Conc: 2}, 1<<20) },
		func() {
			r := lz4.NewReader(bytes.NewReader(bad))
			r.Apply(lz4.ConcurrencyOption(4))
			io.Copy(io.Discard, r)
			r.Reset(bytes.NewReader(frame6))
			io.Copy(io.Discard, r)
			r.Reset(bytes.NewReader(frame6))
			r.Read(make([]byte, 100)) // abandoned in the middle
			r.Reset(bytes.NewReader(frame6))
			r.WriteTo(io.Discard)
		},
		func() {
			s1 := &faultSink{failAt: 5}
			w := lz4.NewWriter(s1)
			w.Apply(lz4.BlockSizeOption(lz4.Block64Kb), lz4.ConcurrencyOption(2))
			w.Write(big)
			w.Close()
			w.Reset(io.Discard)
			w.Write(big[:70000])
			w.Close()
		},
	}
	for i, b := range bodies {
		if !c.Mine(int64(i + 3)) {
			continue
		}
		for r := 0; r < runs; r++ {
			if !raceBody(c, fmt.Sprintf("free-form body %d", i), b) {
				c.Add("aux_race_runs", n)
				return
			}
			n++
		}
	}
	c.Add("aux_race_runs", n)
}

// raceBody runs one free-running body of the auxiliary race pass. The bodies take milliseconds; one
// that has not returned after 30 s + 120 s is blocked (which schedules block is decided by the
// exploration under the controlled scheduler; here it only must not keep the check from ending):
// it is reported and the pass stops in this worker, whose other goroutines are left behind.
func raceBody(c *ev.Ctx, name string, fn func()) bool {
	done := make(chan struct{})
	go func() {
		defer close(done)
		defer func() { recover() }()
		fn()
	}()
	select {
	case <-done:
		return true
	case <-time.After(30 * time.Second):
	}
	select {
	case <-done:
		return true
	case <-time.After(120 * time.Second):
	}
	c.Report(&ev.Finding{Sig: "a call does not return in a free-running concurrent execution (auxiliary race pass): " + name + " [schedule-dependent: observed in a free-running concurrent execution]",
		What: "no return within 150 s", Case: map[string]string{"body": name}, Count: 1})
	return false
}

func countSinkCalls(p *writerPlan) int {
	s := &schedSink{}
	w := lz4.NewWriter(s)
	w.Apply(append([]lz4.Option{lz4.BlockSizeOption(lz4.Block64Kb), lz4.ConcurrencyOption(1)}, p.Opts...)...)
	for _, st := range p.Steps {
		switch st.Op {
		case "write":
			w.Write(st.Data)
		case "flush":
			w.Flush()
		case "close":
			w.Close()
		}
	}
	return s.calls
}

func init() {
	ev.Register(&ev.Driver{
		Prop:  "C08",
		Level: "model_checking",
		Rule: "stateless schedule exploration of the real Writer/Reader pipeline code under a controlled cooperative scheduler: every closed scenario (W1..W7 writer call sequences incl. Flush, buffer-full, ReadFrom, reuse, OnBlockDone; W5 sink failing at every call k; R1..R6 reader scenarios incl. corrupt block j, source failing at call k, checksum mismatch, missing end mark, legacy, reuse) is explored depth-first over all choice sequences within the preemption bound (iterative bounding 0..B), " +
			"with deadlock, leak, runaway, pool-poison, order/content and callback monitors on every execution. distinct_nontrivial = executions in which at least two threads were enabled at some point.",
		Assumptions: []string{
			"code between two visible operations (channel, mutex, spawn, sink/source call) runs atomically: unsynchronised memory races are visible only through their effect on some explored schedule (pool poison, wrong bytes); a free-running -race pass is auxiliary",
			"interleavings beyond the completed preemption bound, more than 3 blocks, concurrency > 3 are not explored",
		},
		Alt:      []string{"sched", "race"},
		ReplayIn: "sched",
		Run: func(c *ev.Ctx) {
			if Flavour == "race" {
				c08RacePass(c)
				return
			}
			if Flavour != "sched" {
				return // the plain binary only orchestrates
			}
			bad, good := selfTestScenarios()
			fb := map[string]bool{}
			e := &explorer{c: ev.NewCtx("C08", c.Tier, c.Seed, 0, 1), sc: bad, bound: 1, st: &exploreStats{}, failed: fb}
			e.explore(nil, 0, nil)
			if len(fb) == 0 {
				c.Machinery("explorer self-test: the lost update was not found at bound 1")
				return
			}
			fb2 := map[string]bool{}
			e2 := &explorer{c: ev.NewCtx("C08", c.Tier, c.Seed, 0, 1), sc: good, bound: 2, st: &exploreStats{}, failed: fb2}
			e2.explore(nil, 0, nil)
			if len(fb2) != 0 {
				c.Machinery("explorer self-test: the locked counter fails: %v %v", fb2, e2.c.P.Findings[0].What)
				return
			}
			bound := 2
			if c.Thorough() {
				bound = 4 // bounds-first: whatever the time cap leaves unfinished is a highest bound, reported per scenario
			}
			if v := os.Getenv("VERIF_BOUND"); v != "" {
				fmt.Sscan(v, &bound)
			}
			var scs []*Scenario
			for _, sc := range c08Scenarios(c.Thorough()) {
				if only := os.Getenv("VERIF_ONLY"); only != "" && !strings.HasPrefix(sc.Name, only) {
					continue
				}
				scs = append(scs, sc)
			}
			exploreBoundsFirst(c, scs, func(sc *Scenario) int {
				b := bound
				switch {
				case sc.Name == "R7":
					b -= 2 // the two-stream mid-Reset scenario is the largest
				case strings.HasPrefix(sc.Name, "W5"), strings.HasPrefix(sc.Name, "R3"), strings.HasPrefix(sc.Name, "R4"), strings.HasPrefix(sc.Name, "R5"), sc.Name == "R6", sc.Name == "R8":
					b-- // fault families (many scenarios) and the two-frame reuse scenario
				}
				if b < 0 {
					b = 0
				}
				return b
			})
		},
		Finalize: func(cov map[string]interface{}, p *ev.Partial) {
			cov["states"] = p.Counters["distinct_states"] + 1
			cov["transitions"] = p.Counters["transitions"]
			cov["traces_validated_against_impl"] = p.Counters["executions"]
			cov["preemption_bound_completed_per_scenario"] = boundsCompleted(p)
			cov["explanation"] = "states = distinct global state keys reached at choice points at the highest preemption bound (summed over scenarios and shards; a state re-reached with at least as many preemptions used is not re-expanded); transitions = visible-operation steps executed; every execution runs the real code, so every trace is an implementation trace"
		},
		Replay: func(c *ev.Ctx) { replayScenario(c, c08Scenarios(true)) },
	})
}
