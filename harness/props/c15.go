package props

import (
	"bytes"
	"encoding/json"
	"errors"
	"fmt"
	"io"
	"strings"
	"time"

	lz4 "github.com/pierrec/lz4/v4"
	"github.com/pierrec/lz4/v4/verifsched"

	"verif/harness/ev"
)

// C15 — I/O failures are reported faithfully and read fragmentation is irrelevant.
// Fault enumeration with deviation bounding: 0 deviations = fault-free run under the default
// fragmentation, 1 = one failing call or one non-default fragmentation, 2 = a failing call
// under a non-default fragmentation.

type c15W struct {
	Opts    wopts  `json:"opts"`
	Deliv   string `json:"delivery"` // write3 | flush | readfrom
	Len     int    `json:"len"`
	FailAt  int    `json:"fail_at"`
	Partial bool   `json:"partial"`
}

type faultSink struct {
	buf     []byte
	calls   int
	failAt  int
	partial bool
	dead    bool
	after   int
}

func (s *faultSink) Write(p []byte) (int, error) {
	s.calls++
	if s.calls > 200000 {
		panic("sink call budget exceeded (runaway)")
	}
	if s.dead {
		s.after++
		return 0, errInjected // a failed sink keeps failing
	}
	if s.failAt > 0 && s.calls == s.failAt {
		s.dead = true
		n := 0
		if s.partial {
			n = len(p) / 2
			s.buf = append(s.buf, p[:n]...)
		}
		return n, errInjected
	}
	s.buf = append(s.buf, p...)
	return len(p), nil
}

type c15WRes struct {
	errs  []error
	names []string
	sink  *faultSink
	panic string
	hung  bool
}

// c15WHung: a free-running concurrent Writer did not return from a call in this worker; further
// free-running concurrent writer cases are skipped (each would cost the full watchdog time).
var c15WHung bool

// runC15W runs the writer history; for a concurrent Writer (real goroutines in this flavour) it
// runs under a watchdog (30 s + 120 s for calls that take milliseconds): which schedules block is
// decided under the controlled scheduler, here a hang only must not keep the check from ending.
func runC15W(k c15W, sink io.Writer) (res c15WRes) {
	if k.Opts.Conc == 1 || Flavour == "sched" {
		return runC15W1(k, sink)
	}
	done := make(chan c15WRes, 1)
	go func() { done <- runC15W1(k, sink) }()
	select {
	case res = <-done:
		return res
	case <-time.After(30 * time.Second):
	}
	select {
	case res = <-done:
		return res
	case <-time.After(120 * time.Second):
	}
	c15WHung = true
	return c15WRes{hung: true}
}

func runC15W1(k c15W, sink io.Writer) (res c15WRes) {
	defer func() {
		if r := recover(); r != nil {
			res.panic = fmt.Sprint(r)
		}
	}()
	input := make([]byte, k.Len)
	w := lz4.NewWriter(sink)
	w.Apply(k.Opts.options(k.Len)...)
	note := func(name string, err error) {
		res.names = append(res.names, name)
		res.errs = append(res.errs, err)
	}
	switch k.Deliv {
	case "write3":
		a, b := k.Len/3, 2*k.Len/3
		for _, ch := range [][]byte{input[:a], input[a:b], input[b:]} {
			_, err := w.Write(ch)
			note("Write", err)
		}
	case "flush":
		_, err := w.Write(input[:k.Len/2])
		note("Write", err)
		note("Flush", w.Flush())
		_, err = w.Write(input[k.Len/2:])
		note("Write", err)
	case "readfrom":
		_, err := w.ReadFrom(bytes.NewReader(input))
		note("ReadFrom", err)
	}
	note("Close", w.Close())
	return
}

func judgeC15W(k c15W, res c15WRes, sink *faultSink, golden []byte) (string, string) {
	cls := fmt.Sprintf("delivery=%s conc>1=%v legacy=%v", k.Deliv, k.Opts.Conc != 1, k.Opts.Legacy)
	if res.hung {
		return "a Writer call does not return after the sink failed (free-running concurrent execution); " + cls, fmt.Sprintf("fail at call %d", k.FailAt)
	}
	if res.panic != "" {
		return "Writer panics when the sink fails; " + cls, res.panic
	}
	reported := false
	for _, e := range res.errs {
		if e != nil {
			if errors.Is(e, errInjected) {
				reported = true
			}
		}
	}
	if sink.dead && !reported {
		return "sink failure is not returned by Write, ReadFrom, Flush or Close; " + cls, fmt.Sprintf("fail at call %d; results %v %v", k.FailAt, res.names, res.errs)
	}
	if !bytes.HasPrefix(golden, sink.buf) {
		return "bytes accepted by the sink before its failure are not a prefix of the fault-free output; " + cls, describeDiff(sink.buf, golden)
	}
	return "", ""
}

func c15WScenarios(thorough bool) []c15W {
	optsets := []wopts{
		{BS: 65536, CSum: true},
		{BS: 65536, CSum: true, BSum: true},
		{BS: 65536, CSum: true, Size: true},
		{BS: 65536, CSum: false},
		{BS: 65536, Legacy: true, CSum: true},
	}
	var out []c15W
	for _, o := range optsets {
		for _, d := range []string{"write3", "flush", "readfrom"} {
			for _, n := range []int{1, 65537, 2*65536 + 1} {
				out = append(out, c15W{Opts: o, Deliv: d, Len: n})
			}
		}
	}
	return out
}

// ---- reader side -------------------------------------------------------------------------------

type c15R struct {
	Opts   wopts   `json:"opts"`
	Len    int     `json:"len"`
	Frag   int     `json:"frag"`
	FailAt int     `json:"fail_at"`
	FailN  int     `json:"fail_n"`
	Wrap   bool    `json:"fail_wraps_eof,omitempty"`
	Read   readCfg `json:"read"`
}

// stickySource fails at call k and keeps failing.
type stickySource struct {
	fragSource
	failed bool
}

func (s *stickySource) Read(p []byte) (int, error) {
	if s.failed {
		s.calls++
		if s.wrap {
			return 0, errInjectedWrapped
		}
		return 0, errInjected
	}
	n, err := s.fragSource.Read(p)
	if err == errInjected || err == errInjectedWrapped {
		s.failed = true
	}
	return n, err
}

func runC15R(k c15R, frame []byte) (res decodeOutcome, calls int) {
	res, calls, _ = runC15Rpos(k, frame)
	return
}

func runC15Rpos(k c15R, frame []byte) (res decodeOutcome, calls int, pos int) {
	ps := fragPatterns()
	src := &stickySource{fragSource: fragSource{data: frame, pat: ps[k.Frag%len(ps)], failAt: k.FailAt, failN: k.FailN, wrap: k.Wrap}}
	defer func() {
		if r := recover(); r != nil {
			res.panic = fmt.Sprint(r)
		}
		calls = src.calls
		pos = src.pos
	}()
	r := lz4.NewReader(src)
	r.Apply(lz4.ConcurrencyOption(k.Read.Conc))
	if k.Read.WriteTo {
		var out bytes.Buffer
		_, err := r.WriteTo(&out)
		res.out, res.err, res.clean = out.Bytes(), err, err == nil
		return
	}
	buf := make([]byte, k.Read.Buf)
	for i := 0; i < 1<<22; i++ {
		n, err := r.Read(buf)
		res.out = append(res.out, buf[:n]...)
		if err != nil {
			res.err, res.clean = err, err == io.EOF
			return
		}
	}
	res.err = errors.New("Read does not end")
	return
}

func c15Run(c *ev.Ctx) {
	if Flavour == "sched" {
		c15Sched(c)
		return
	}
	// ---- writer side, sequential and free-running concurrent
	for _, base := range c15WScenarios(c.Thorough()) {
		for _, conc := range []int{1, 2} {
			if !c.Next() {
				continue
			}
			k0 := base
			k0.Opts.Conc = conc
			g := &faultSink{}
			res0 := runC15W(k0, g)
			c.Eval(1)
			if res0.hung {
				c.Report(&ev.Finding{Sig: "a Writer call does not return (free-running concurrent execution, no fault injected)", What: fmt.Sprint(k0), Case: k0})
				continue
			}
			for i, e := range res0.errs {
				if e != nil {
					c.Report(&ev.Finding{Sig: "Writer fails without any fault: " + res0.names[i], What: fmt.Sprint(e, k0), Case: k0})
				}
			}
			golden := g.buf
			n := g.calls
			c.Add("writer_fault_free_sink_calls", int64(n))
			for k := 1; k <= n; k++ {
				for _, partial := range []bool{false, true} {
					if conc != 1 && c15WHung {
						c.Add("writer_fault_points_skipped_after_hang", 1)
						continue
					}
					kk := k0
					kk.FailAt, kk.Partial = k, partial
					sink := &faultSink{failAt: k, partial: partial}
					res := runC15W(kk, sink)
					c.Eval(1)
					c.Distinct(1)
					c.Add("writer_fault_points", 1)
					if sig, what := judgeC15W(kk, res, sink, golden); sig != "" {
						if res.hung {
							// not re-executed: every re-run would cost the full watchdog time
							c.Report(&ev.Finding{Sig: sig + " [schedule-dependent: observed in a free-running concurrent execution]", What: fmt.Sprintf("%s; %+v", what, kk), Case: kk})
							continue
						}
						c.ConfirmFree(&ev.Finding{Sig: sig, What: fmt.Sprintf("%s; %+v", what, kk), Case: kk}, conc != 1, func() *ev.Finding {
							s2 := &faultSink{failAt: kk.FailAt, partial: kk.Partial}
							r2 := runC15W(kk, s2)
							if sg, _ := judgeC15W(kk, r2, s2, golden); sg != "" {
								return &ev.Finding{Sig: sg}
							}
							return nil
						})
					}
				}
			}
			if conc == 1 && base.Len == 65537 {
				c.Sample(map[string]interface{}{"scenario": k0, "sink_calls": n})
			}
		}
	}
	// ---- reader side
	cfgs := []readCfg{{1, false, 7}, {1, false, 65536}, {Conc: 1, WriteTo: true}, {2, false, 7}, {Conc: 2, WriteTo: true}}
	type rframe struct {
		o     wopts
		n     int
		frame []byte
		input []byte
	}
	var rframes []rframe
	for _, base := range c15WScenarios(c.Thorough()) {
		if base.Deliv != "write3" {
			continue
		}
		input := make([]byte, base.Len)
		o := base.Opts
		o.Conc = 1
		frame, err := produceFrame(o, input, delivery{Kind: "write"})
		if err != nil {
			continue
		}
		rframes = append(rframes, rframe{o, base.Len, frame, input})
	}
	// hand-built streams: concatenated legacy frames; a skippable frame followed by a frame; nothing
	// but a skippable frame (a valid, empty stream)
	for _, b := range baseFrames(false) {
		switch b.Name {
		case "legacy-x2":
			rframes = append(rframes, rframe{wopts{Legacy: true}, -1, b.Frame, b.Content})
		case "skip+frame":
			rframes = append(rframes, rframe{wopts{}, -2, b.Frame, b.Content})
			rframes = append(rframes, rframe{wopts{}, -3, b.Frame[:13], []byte{}})
		}
	}
	for _, rf := range rframes {
		if !c.Next() {
			continue
		}
		base := c15W{Len: rf.n}
		o, frame, input := rf.o, rf.frame, rf.input
		for _, rc := range cfgs {
			ref0, _ := runC15R(c15R{Opts: o, Len: base.Len, Frag: 4, Read: rc}, frame)
			c.Eval(1)
			if !ref0.clean || !bytes.Equal(ref0.out, input) {
				continue // C02's business
			}
			// deviation 1a: every fragmentation pattern
			for f := range fragPatterns() {
				k := c15R{Opts: o, Len: base.Len, Frag: f, Read: rc}
				res, _ := runC15R(k, frame)
				c.Eval(1)
				c.Distinct(1)
				c.Add("reader_fragmentation_runs", 1)
				if res.panic != "" || res.clean != ref0.clean || !bytes.Equal(res.out, ref0.out) {
					sig := fmt.Sprintf("decoding depends on how the source fragments its reads (%s,%s); legacy=%v", fragKinds[fragPatterns()[f][0]], fragKinds[fragPatterns()[f][1]], o.Legacy)
					c.ConfirmFree(&ev.Finding{Sig: sig, What: fmt.Sprintf("err=%v panic=%s; %+v", res.err, res.panic, k), Case: k}, rc.Conc > 1, func() *ev.Finding {
						r2, _ := runC15R(k, frame)
						if r2.panic != "" || r2.clean != ref0.clean || !bytes.Equal(r2.out, ref0.out) {
							return &ev.Finding{Sig: sig}
						}
						return nil
					})
				}
			}
			// deviation 1b / 2: failure at every source call under the full-read and the 1-byte pattern
			for _, f := range []int{4, 0} {
				_, ncalls := runC15R(c15R{Opts: o, Len: base.Len, Frag: f, Read: rc}, frame)
				if ncalls > 400 {
					ncalls = 400
				}
				for kf := 1; kf <= ncalls; kf++ {
					for _, fn := range []int{0, 3, -1} {
						k := c15R{Opts: o, Len: base.Len, Frag: f, FailAt: kf, FailN: fn, Read: rc}
						if fn < 0 {
							k.FailN, k.Wrap = 0, true
						}
						res, _, pos := runC15Rpos(k, frame)
						c.Eval(1)
						c.Distinct(1)
						c.Add("reader_fault_points", 1)
						if fn > 0 && res.clean && pos == len(frame) && bytes.Equal(res.out, input) {
							// the failing call also delivered the last bytes of the frame: per the io.Reader
							// contract the data is processed first, and nothing more is ever asked of the source
							c.Add("reader_fault_with_final_bytes", 1)
							continue
						}
						sig := ""
						path := "Read"
						if rc.WriteTo {
							path = "WriteTo"
						}
						switch {
						case res.panic != "":
							sig = "Reader panics when the source fails; " + path
						case res.clean:
							sig = fmt.Sprintf("source failure is swallowed: the stream ends cleanly; %s conc>1=%v legacy=%v", path, rc.Conc > 1, o.Legacy)
						case !errors.Is(res.err, errInjected):
							sig = fmt.Sprintf("source failure is replaced by another error (%s); %s conc>1=%v legacy=%v", errClass(res.err), path, rc.Conc > 1, o.Legacy)
						case !bytes.HasPrefix(input, res.out):
							sig = "bytes delivered before the source failure are not a prefix of the content; " + path
						}
						if sig != "" {
							c.ConfirmFree(&ev.Finding{Sig: sig, What: fmt.Sprintf("err=%v; %+v", res.err, k), Case: k}, rc.Conc > 1, func() *ev.Finding {
								r2, _ := runC15R(k, frame)
								if r2.clean || !errors.Is(r2.err, errInjected) || r2.panic != "" || !bytes.HasPrefix(input, r2.out) {
									return &ev.Finding{Sig: sig}
								}
								return nil
							})
						}
					}
				}
			}
		}
	}
	c.Flag("exhaustive", true)
}

// c15Sched: the concurrent Writer with a failing sink under the controlled scheduler: every
// fault point of the small scenarios explored over all schedules within preemption bound 1.
func c15Sched(c *ev.Ctx) {
	bound := 1
	if c.Thorough() {
		bound = 2
	}
	for _, sc := range c15SchedScenarios() {
		exploreScenario(c, sc, bound)
	}
}

func c15SchedScenarios() []*Scenario {
	var out []*Scenario
	a, b := payload('A', 17), payload('N', 29)
	big := make([]byte, 65537)
	wr := func(d []byte) writerStep { return writerStep{Op: "write", Data: d} }
	bases := []*writerPlan{
		{Name: "F-flush", Conc: 2, Steps: []writerStep{wr(a), {Op: "flush"}, wr(b), {Op: "close"}}},
		{Name: "F-bsum", Conc: 2, Opts: []lz4.Option{lz4.BlockChecksumOption(true)}, Steps: []writerStep{wr(a), {Op: "flush"}, wr(b), {Op: "close"}}},
		{Name: "F-big", Conc: 2, Steps: []writerStep{wr(big), {Op: "close"}}},
		{Name: "F-readfrom", Conc: 2, Steps: []writerStep{{Op: "readfrom", Data: big}, {Op: "close"}}},
	}
	for _, base := range bases {
		n := countSinkCalls(base)
		for k := 1; k <= n; k++ {
			for _, partial := range []bool{false, true} {
				p := *base
				p.FailAt, p.Partial = k, partial
				p.Name = fmt.Sprintf("%s-k%d-p%v", base.Name, k, partial)
				sc := writerScenario(&p)
				sc.Soft = nil // "still running after Close" is C08's clause
				out = append(out, sc)
			}
		}
	}
	_ = verifsched.Active
	_ = strings.Join
	return out
}

func init() {
	ev.Register(&ev.Driver{
		Prop: "C15", Level: "fault_enumeration",
		Rule: "writer side: scenarios {default, block checksum, size, no content checksum, legacy} x concurrency {1,2} x delivery {3 Writes+Close, Write Flush Write Close, ReadFrom Close} x input {1, B+1, 2B+1 bytes}; the fault-free run gives the N sink calls, then for EVERY k in 1..N the k-th call fails (accepting 0 bytes / half of them) and the sink keeps failing; concurrency 2 additionally under the controlled scheduler for every k over all schedules within preemption bound 1 (thorough 2). " +
			"reader side: every one of the 49 source fragmentation patterns (cycles of length <=2 over {1,2,3,7,all,zero-length-then-data,data together with io.EOF}), then for every k up to the number of source calls (full-read and 1-byte patterns) the k-th Read fails with (0 bytes, err) and (3 bytes, err), sticky; Reader concurrency {1,2} x Read/WriteTo. Deviation bounding: 0, 1 (one fault or one non-default fragmentation), 2 (fault under the 1-byte fragmentation). distinct_nontrivial = fault points and fragmentation runs.",
		Assumptions: []string{"a sink or source that has failed keeps failing", "sinks that accept a write and fail later are not expressible through io.Writer"},
		Alt:         []string{"sched"},
		ReplayIn:    "sched",
		ReplayInIf:  func(raw []byte) bool { return bytes.Contains(raw, []byte(`"scenario"`)) },
		Run:         c15Run,
		Replay: func(c *ev.Ctx) {
			// replays carry either a writer or a reader case
			var kw c15W
			if err := json.Unmarshal(c.ReplayRaw, &kw); err == nil && kw.Deliv != "" {
				g := &faultSink{}
				k0 := kw
				k0.FailAt = 0
				runC15W(k0, g)
				s := &faultSink{failAt: kw.FailAt, partial: kw.Partial}
				res := runC15W(kw, s)
				if sig, what := judgeC15W(kw, res, s, g.buf); sig != "" {
					c.Report(&ev.Finding{Sig: sig, What: what, Case: kw})
				}
				return
			}
			var kr c15R
			if err := json.Unmarshal(c.ReplayRaw, &kr); err == nil && kr.Read.Conc > 0 {
				input := make([]byte, kr.Len)
				frame, err := produceFrame(kr.Opts, input, delivery{Kind: "write"})
				if err != nil {
					return
				}
				res, _ := runC15R(kr, frame)
				if kr.FailAt > 0 && (res.clean || !errors.Is(res.err, errInjected)) {
					c.Report(&ev.Finding{Sig: "source failure is not reported faithfully", What: fmt.Sprint(res.err), Case: kr})
				}
				if kr.FailAt == 0 && (!res.clean || !bytes.Equal(res.out, input)) {
					c.Report(&ev.Finding{Sig: "decoding depends on how the source fragments its reads", What: fmt.Sprint(res.err), Case: kr})
				}
				return
			}
			var ks schedCase
			if err := json.Unmarshal(c.ReplayRaw, &ks); err == nil && ks.Scenario != "" {
				replayScenario(c, c15SchedScenarios())
			}
		},
	})
}
