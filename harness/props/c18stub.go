package props

import "verif/harness/ev"

func c09CompressingReader(c *ev.Ctx) {}
