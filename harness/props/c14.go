package props

import (
	"bytes"
	"encoding/json"
	"fmt"

	"verif/harness/ev"
)

// C14 — compression is deterministic. Three sub-spaces:
//   (a) compressor/pool history (blockenum with the determinism oracle + explicit histories),
//   (b) frames across concurrency levels and Write partitions / ReadFrom fragmentations (plain),
//   (c) frames across goroutine schedules (controlled scheduler, flavour sched).

type c14Case struct {
	Kind  string     `json:"kind"`
	Block *blockCase `json:"block,omitempty"`
	A, B  corpusItem `json:"a,b"`
}

func c14Frames(c *ev.Ctx) {
	for _, o := range optionGrid(c.Thorough()) {
		if o.Conc != 1 {
			continue // concurrency is an axis of the comparison below
		}
		for _, in := range inputsFor(o.BS, c.Thorough(), o.Legacy) {
			if !c.Next() {
				continue
			}
			if in.Len > 1<<20 && !c.Thorough() {
				continue
			}
			input := in.build()
			var refW, refR []byte
			var refWItem, refRItem corpusItem
			mode := "few"
			if o.Level == 0 {
				mode = "all"
			}
			for _, conc := range []int{1, 2, 4} {
				oc := o
				oc.Conc = conc
				for _, d := range deliveriesFor(in.Len, o.blockLen(), mode, c.Thorough()) {
					if d.Flush != 0 {
						continue // Flush legitimately moves block boundaries
					}
					if conc != 1 && d.Kind == "write" && len(d.Cuts) > 2 && mode == "all" && len(d.Cuts)%2 == 0 {
						continue
					}
					it := corpusItem{oc, in, d}
					frame, err := produceFrame(oc, input, d)
					c.Eval(1)
					if err != nil {
						continue // C02 reports Writer failures
					}
					c.Distinct(1)
					ref, refItem := &refW, &refWItem
					what := "Write partition or concurrency"
					if d.Kind == "readfrom" {
						ref, refItem = &refR, &refRItem
						what = "ReadFrom fragmentation or concurrency"
					}
					if *ref == nil {
						*ref = append([]byte(nil), frame...)
						*refItem = it
						continue
					}
					if !bytes.Equal(*ref, frame) {
						cls := "partition"
						if refItem.Opts.Conc != oc.Conc {
							cls = "concurrency level"
						}
						k := c14Case{Kind: "frames", A: *refItem, B: it}
						// Two frames for the same stream and options differ: that observation is the
						// violation whether or not it reproduces (a history-dependent difference is
						// exactly what the property forbids), so it is reported without re-execution.
						a2, e1 := produceFrame(k.A.Opts, input, k.A.Deliv)
						b2, e2 := produceFrame(k.B.Opts, input, k.B.Deliv)
						repro := e1 == nil && e2 == nil && bytes.Equal(a2, *ref) && bytes.Equal(b2, frame)
						sig := fmt.Sprintf("frame bytes depend on the %s (%s); legacy=%v", cls, what, o.Legacy)
						if !repro {
							sig = fmt.Sprintf("frame bytes for the same stream and options are not reproducible (depend on what was compressed before); legacy=%v", o.Legacy)
						}
						c.Report(&ev.Finding{Sig: sig, What: fmt.Sprintf("%s; %+v vs %+v", describeDiff(frame, *ref), *refItem, it), Case: k})
					}
				}
			}
		}
	}
}

func init() {
	ev.Register(&ev.Driver{
		Prop: "C14", Level: "model_checking",
		Rule: "(a) blocks: the C01 source enumeration compressed through the package functions (shared pools), a fresh object and one object reused for the whole run (its history = every source compressed before, incl. sources > 128 KiB), outputs compared byte for byte; explicit histories: every sequence of <= 2 (thorough 3) inputs from a pool of six (sizes reaching the first, second and third 64 KiB segment) followed by every probe, compared with a brand-new object. " +
			"(b) frames: for every (options, input) of the C02 grid the frame must be byte-identical across Writer concurrency {1,2,4} and every Write partition without Flush, and across every ReadFrom fragmentation pattern. " +
			"(c) schedules: the W1-W4 pipeline scenarios under the controlled scheduler: sink bytes equal the sequential Writer's in every interleaving within preemption bound 1 (thorough 2). distinct_nontrivial = compressions/frames compared.",
		Assumptions: []string{"ReadFrom and Write deliveries are compared within their own family (ReadFrom ends a stream whose length is a multiple of the block size with an empty block)",
			"Flush deliveries are excluded: Flush legitimately moves block boundaries"},
		Alt:        []string{"sched"},
		ReplayIn:   "sched",
		ReplayInIf: func(raw []byte) bool { return bytes.Contains(raw, []byte(`"scenario"`)) },
		Run: func(c *ev.Ctx) {
			if Flavour == "sched" {
				bound := 1
				if c.Thorough() {
					bound = 2
				}
				for _, sc := range c08Scenarios(false) {
					switch sc.Name {
					case "W1", "W2", "W3", "W4", "W2c3":
						sc.Soft = nil
						exploreScenario(c, sc, bound)
					}
				}
				return
			}
			blockEnumRun("C14")(c)
			c14Frames(c)
			c09OptionChange(c) // a reused Writer must emit the bytes a new one emits
		},
		Finalize: func(cov map[string]interface{}, p *ev.Partial) {
			cov["states"] = p.Counters["distinct_states"] + p.Counters["histories"] + 1
			cov["transitions"] = p.Counters["transitions"] + p.Counters["history_transitions"] + 1
			cov["traces_validated_against_impl"] = p.Counters["executions"] + p.Counters["history_probe_pairs"]
			cov["preemption_bound_completed_per_scenario"] = boundsCompleted(p)
			cov["explanation"] = "states/transitions: scheduler states of part (c) plus compressor-history states of part (a); every trace is an execution of the real code"
		},
		Replay: func(c *ev.Ctx) {
			var ks schedCase
			if err := json.Unmarshal(c.ReplayRaw, &ks); err == nil && ks.Scenario != "" {
				replayScenario(c, c08Scenarios(true))
				return
			}
			var k c14Case
			if err := json.Unmarshal(c.ReplayRaw, &k); err == nil && k.Kind == "frames" {
				in := k.A.In.build()
				a, e1 := produceFrame(k.A.Opts, in, k.A.Deliv)
				b, e2 := produceFrame(k.B.Opts, in, k.B.Deliv)
				if e1 == nil && e2 == nil && !bytes.Equal(a, b) {
					c.Report(&ev.Finding{Sig: "frame bytes depend on the partition or concurrency level", Case: k})
				}
				return
			}
			blockEnumReplay("C14")(c)
		},
	})
}
