package props

import (
	"bytes"
	"context"
	"encoding/json"
	"fmt"
	"os"
	"os/exec"
	"path/filepath"
	"syscall"
	"time"

	"verif/harness/ev"
	"verif/harness/ref"
)

// C20 — the lz4c command, built from the working tree (vcheck passes its path in VERIF_LZ4C).

type c20Case struct {
	Size   string `json:"size"`
	BC     bool   `json:"bc"`
	SC     bool   `json:"sc"`
	Level  int    `json:"level"`
	Conc   int    `json:"conc"`
	Len    int    `json:"len"`
	Kind   string `json:"content"`
	Perm   uint32 `json:"perm"`
	Stdio  bool   `json:"stdio"`
	Second int    `json:"second_len"` // >=0: two-file invocation, second file of this length
}

var c20Sizes = map[string]int{"64K": 65536, "256K": 262144, "1M": 1 << 20, "4M": 4 << 20}

func (k c20Case) flags() []string {
	f := []string{"-size", k.Size, "-l", fmt.Sprint(k.Level), "-c", fmt.Sprint(k.Conc)}
	if k.BC {
		f = append(f, "-bc")
	}
	if k.SC {
		f = append(f, "-sc")
	}
	return f
}

func runCmd(dir string, stdin []byte, name string, args ...string) (stdout []byte, rc int, timedOut bool, err error) {
	ctx, cancel := context.WithTimeout(context.Background(), 120*time.Second)
	defer cancel()
	cmd := exec.CommandContext(ctx, name, args...)
	cmd.Dir = dir
	if stdin != nil {
		cmd.Stdin = bytes.NewReader(stdin)
	}
	var out, errb bytes.Buffer
	cmd.Stdout, cmd.Stderr = &out, &errb
	e := cmd.Run()
	if ctx.Err() != nil {
		return out.Bytes(), -1, true, nil
	}
	if e != nil {
		if ee, ok := e.(*exec.ExitError); ok {
			return out.Bytes(), ee.ExitCode(), false, nil
		}
		return nil, -1, false, e
	}
	return out.Bytes(), 0, false, nil
}

func c20Check(k c20Case, bin, dir string) (sig, what string) {
	os.RemoveAll(dir)
	if err := os.MkdirAll(dir, 0o755); err != nil {
		return "", ""
	}
	defer os.RemoveAll(dir)
	content := inputSpec{k.Len, k.Kind}.build()
	flagCls := fmt.Sprintf("stdio=%v", k.Stdio)
	checkFrame := func(z []byte, orig []byte, who string) (string, string) {
		p, err := ref.Parse(z, ref.Opts{})
		if err != nil {
			return "lz4c: the compressed file is not a well-formed frame (" + who + ")", err.Error()
		}
		switch {
		case !bytes.Equal(p.Content, orig):
			return "lz4c: the compressed file does not decode to the original (" + who + ")", describeDiff(p.Content, orig)
		case p.BSCode != bsCode(c20Sizes[k.Size]):
			return "lz4c: -size does not set the block maximum", fmt.Sprintf("%s -> code %d", k.Size, p.BSCode)
		case p.BlockSum != k.BC:
			return "lz4c: -bc does not control the block checksum", fmt.Sprintf("-bc=%v flag=%v", k.BC, p.BlockSum)
		case p.ContentSum != !k.SC:
			return "lz4c: -sc does not disable the stream checksum (or it is off by default)", fmt.Sprintf("-sc=%v flag=%v", k.SC, p.ContentSum)
		}
		// every flag, the level included, must have the effect of the corresponding library option:
		// compression is deterministic (C14), so the file must equal the frame the library's Writer
		// produces through ReadFrom (what io.Copy uses) with those options
		want, err := produceFrame(wopts{BS: c20Sizes[k.Size], BSum: k.BC, CSum: !k.SC, Level: k.Level, Conc: 1}, orig, delivery{Kind: "readfrom", Frag: 4})
		if err == nil && !bytes.Equal(want, z) {
			return "lz4c: the compressed file differs from what the library produces with the options the flags stand for (" + who + ")", fmt.Sprintf("-l %d: %s", k.Level, describeDiff(z, want))
		}
		return "", ""
	}
	if k.Stdio {
		z, rc, to, err := runCmd(dir, content, bin, append([]string{"compress"}, k.flags()...)...)
		if err != nil {
			return "", ""
		}
		if to {
			return "lz4c compress hangs (stdin/stdout)", ""
		}
		if rc != 0 {
			return "lz4c compress exits non-zero (stdin/stdout)", fmt.Sprint(rc)
		}
		if s, w := checkFrame(z, content, "stdout"); s != "" {
			return s, w
		}
		back, rc, to, _ := runCmd(dir, z, bin, "uncompress")
		if to {
			return "lz4c uncompress hangs (stdin/stdout)", ""
		}
		if rc != 0 || !bytes.Equal(back, content) {
			return "lz4c: stdin/stdout round trip does not restore the bytes", fmt.Sprintf("rc=%d %s", rc, describeDiff(back, content))
		}
		return "", ""
	}
	files := []struct {
		name string
		data []byte
	}{{"a.dat", content}}
	if k.Second >= 0 {
		files = append(files, struct {
			name string
			data []byte
		}{"b.dat", inputSpec{k.Second, "p7"}.build()})
	}
	args := append([]string{"compress"}, k.flags()...)
	for _, f := range files {
		if err := os.WriteFile(filepath.Join(dir, f.name), f.data, os.FileMode(k.Perm)); err != nil {
			return "", ""
		}
		os.Chmod(filepath.Join(dir, f.name), os.FileMode(k.Perm))
		args = append(args, f.name)
	}
	// a third file compressed by a separate invocation with another block size is uncompressed
	// together with the others (one Reader reused across files of different block sizes)
	var other []byte
	if k.Second >= 0 {
		other = inputSpec{70000, "text"}.build()
		if err := os.WriteFile(filepath.Join(dir, "c.dat"), other, os.FileMode(k.Perm)); err != nil {
			return "", ""
		}
		osz := "64K"
		if k.Size == "64K" {
			osz = "1M"
		}
		if _, rc, _, _ := runCmd(dir, nil, bin, "compress", "-size", osz, "c.dat"); rc != 0 {
			return "lz4c compress exits non-zero", "third file"
		}
		os.Remove(filepath.Join(dir, "c.dat"))
	}
	_, rc, to, err := runCmd(dir, nil, bin, args...)
	if err != nil {
		return "", ""
	}
	if to {
		return "lz4c compress hangs; " + flagCls, ""
	}
	if rc != 0 {
		return "lz4c compress exits non-zero", fmt.Sprint(rc)
	}
	var zargs []string
	for i, f := range files {
		z, err := os.ReadFile(filepath.Join(dir, f.name+".lz4"))
		if err != nil {
			return fmt.Sprintf("lz4c compress does not produce the .lz4 file (file %d of %d)", i+1, len(files)), err.Error()
		}
		if s, w := checkFrame(z, f.data, fmt.Sprintf("file %d of %d", i+1, len(files))); s != "" {
			return s, w
		}
		os.Remove(filepath.Join(dir, f.name))
		zargs = append(zargs, f.name+".lz4")
	}
	if other != nil {
		zargs = append(zargs, "c.dat.lz4")
		files = append(files, struct {
			name string
			data []byte
		}{"c.dat", other})
	}
	_, rc, to, _ = runCmd(dir, nil, bin, append([]string{"uncompress"}, zargs...)...)
	if to {
		return "lz4c uncompress hangs", ""
	}
	if rc != 0 {
		return "lz4c uncompress exits non-zero", fmt.Sprint(rc)
	}
	for i, f := range files {
		back, err := os.ReadFile(filepath.Join(dir, f.name))
		if err != nil {
			return fmt.Sprintf("lz4c uncompress does not restore the file name (file %d of %d)", i+1, len(files)), err.Error()
		}
		if !bytes.Equal(back, f.data) {
			return fmt.Sprintf("lz4c round trip does not restore the bytes (file %d of %d)", i+1, len(files)), describeDiff(back, f.data)
		}
		st, _ := os.Stat(filepath.Join(dir, f.name))
		if st != nil && uint32(st.Mode().Perm()) != k.Perm {
			return "lz4c round trip does not restore the permission bits", fmt.Sprintf("%o vs %o", st.Mode().Perm(), k.Perm)
		}
	}
	return "", ""
}

func c20Run(c *ev.Ctx) {
	bin := os.Getenv("VERIF_LZ4C")
	if bin == "" {
		c.Machinery("VERIF_LZ4C not set (vcheck builds lz4c from the working tree)")
		return
	}
	syscall.Umask(0o022) // the command creates its output files with the input's mode, subject to the umask
	dir := filepath.Join(ev.VerifDir, ".build", fmt.Sprintf("c20-%d-%d", os.Getpid(), c.Shard))
	levels := []int{0, 1, 9}
	if c.Thorough() {
		levels = []int{0, 1, 2, 3, 4, 5, 6, 7, 8, 9}
	}
	perms := []uint32{0o644, 0o600, 0o755}
	i := 0
	for _, size := range []string{"64K", "256K", "1M", "4M"} {
		B := c20Sizes[size]
		for _, bc := range []bool{false, true} {
			for _, sc := range []bool{false, true} {
				for _, l := range levels {
					for _, conc := range []int{1, 2} {
						lens := []int{0, 1, B - 1, B, B + 1, 2*B + 5}
						for li0 := 0; li0 < len(lens)*4; li0++ {
							li, kindIdx := li0%len(lens), li0/len(lens)
							n := lens[li]
							if size != "64K" {
								// larger block sizes: one content kind per case, cycling
								if kindIdx > 0 {
									break
								}
								kindIdx = (i + li) % 4
							}
							i++
							if !c.Next() {
								continue
							}
							if B >= 1<<20 && !c.Thorough() && li%2 == 1 && l != 0 {
								continue
							}
							k := c20Case{Size: size, BC: bc, SC: sc, Level: l, Conc: conc, Len: n, Kind: []string{"zeros", "lcg", "text", "mixed"}[kindIdx], Perm: perms[i%3], Stdio: i%4 == 0, Second: -1}
							if i%8 == 3 {
								k.Second = []int{0, 10, B + 1}[i%3]
							}
							c.Eval(1)
							c.Distinct(1)
							if i%131 == 0 {
								c.Sample(k)
							}
							if sig, what := c20Check(k, bin, dir); sig != "" {
								kk := k
								c.Confirm(&ev.Finding{Sig: sig, What: fmt.Sprintf("%s; %+v", what, k), Case: kk}, func() *ev.Finding {
									if s2, _ := c20Check(kk, bin, dir); s2 != "" {
										return &ev.Finding{Sig: s2}
									}
									return nil
								})
							}
						}
					}
				}
			}
		}
	}
	c.Flag("exhaustive", true)
}

func init() {
	ev.Register(&ev.Driver{Prop: "C20", Level: "exploration",
		Rule:        "complete flag space of `lz4c compress` (-size {64K,256K,1M,4M} x -bc x -sc x -l {0,1,9} (thorough 0..9) x -c {1,2}) x file sizes {0,1,B-1,B,B+1,2B+5} (contents alternating zeros/incompressible, permission bits cycling 0644/0600/0755, every 4th case through stdin/stdout, every 8th a two-file invocation), each compressed and uncompressed by the binary built from the working tree; the .lz4 file is parsed by the strict reference parser and its descriptor compared with the flags. Non-trivial = every case.",
		Assumptions: []string{"lz4c is built against the working tree with a generated go.mod (replace => /repo); the shipped go.mod pins a released version of the library", "progress output and exit codes on failure are not judged"},
		Run:         c20Run,
		Shards:      func(string) int { return 16 },
		Replay: func(c *ev.Ctx) {
			var k c20Case
			if err := json.Unmarshal(c.ReplayRaw, &k); err != nil {
				c.Machinery("bad replay: %v", err)
				return
			}
			dir := filepath.Join(ev.VerifDir, ".build", fmt.Sprintf("c20-replay-%d", os.Getpid()))
			if sig, what := c20Check(k, os.Getenv("VERIF_LZ4C"), dir); sig != "" {
				c.Report(&ev.Finding{Sig: sig, What: what, Case: k})
			}
		}})
}
