package props

import (
	"bytes"
	"encoding/json"
	"errors"
	"fmt"
	"io"
	"strings"

	lz4 "github.com/pierrec/lz4/v4"
	"github.com/pierrec/lz4/v4/verifsched"

	"verif/harness/ev"
	"verif/harness/ref"
)

// C17 — Writer and Reader lifecycle for every call sequence (explicit-state search over call
// histories on the real objects, each history executed under the controlled scheduler so that
// a call that never returns is a deadlock state, compared step by step with a reference model).

// ---------------------------------------------------------------------------------------------
// Writer
// ---------------------------------------------------------------------------------------------

var wAlphabet = []string{"apply-bsum", "apply-size7", "apply-conc2", "apply-legacy", "apply-nocsum", "apply-level1", "write7", "writeB1", "write-nil", "readfrom10", "flush", "close", "reset"}

type wModel struct {
	bsum, size7, conc2, legacy bool
	nocsum, level1             bool
	phase                      string // new | open | closed | failed
	accepted                   []byte
	sink                       int
}

type wStepObs struct {
	n       int64
	err     error
	panic   string
	sinkLen []int // length of every sink after the call
}

// bigZeros is the B+1-byte payload. (The name is historical: it is text-like so that the
// compression level is visible in the emitted bytes, which the differential Reset oracle compares.)
var bigZeros = srcSpec{Fam: "S4", Len: 65537, Content: "text"}.build(nil)
var scratchB1 = make([]byte, 65537)

type wRun struct {
	sinks []*schedSink
	obs   []wStepObs
	dump  string
}

// execWriter runs the history on a fresh Writer (as thread 0 of a controlled run).
func execWriter(hist []int, pre []lz4.Option) (*wRun, *verifsched.Execution) {
	run := &wRun{}
	x := verifsched.Run(nil, verifsched.Options{MaxSteps: 20000}, writerBody(hist, pre, run))
	return run, x
}

// writerBody is the history as a thread-0 body (shared by the canonical run and the schedule
// exploration of concurrent histories).
func writerBody(hist []int, pre []lz4.Option, run *wRun) func() {
	return func() {
		run.sinks = []*schedSink{{}}
		w := lz4.NewWriter(run.sinks[0])
		w.Apply(lz4.BlockSizeOption(lz4.Block64Kb))
		if len(pre) > 0 {
			w.Apply(pre...)
		}
		for _, a := range hist {
			var o wStepObs
			func() {
				defer func() {
					if r := recover(); r != nil {
						o.panic = fmt.Sprint(r)
					}
				}()
				switch wAlphabet[a] {
				case "apply-bsum":
					o.err = w.Apply(lz4.BlockChecksumOption(true))
				case "apply-size7":
					o.err = w.Apply(lz4.SizeOption(7))
				case "apply-conc2":
					o.err = w.Apply(lz4.ConcurrencyOption(2))
				case "apply-legacy":
					o.err = w.Apply(lz4.LegacyOption(true))
				case "apply-nocsum":
					o.err = w.Apply(lz4.ChecksumOption(false))
				case "apply-level1":
					o.err = w.Apply(lz4.CompressionLevelOption(lz4.Level1))
				case "write7":
					// the caller reuses its buffer as soon as Write has returned
					buf := []byte("abcdefg")
					n, err := w.Write(buf)
					o.n, o.err = int64(n), err
					for i := range buf {
						buf[i] = '#'
					}
				case "writeB1":
					copy(scratchB1, bigZeros)
					n, err := w.Write(scratchB1)
					o.n, o.err = int64(n), err
					for i := 0; i < len(scratchB1); i += 97 {
						scratchB1[i] = '#'
					}
				case "write-nil":
					n, err := w.Write(nil)
					o.n, o.err = int64(n), err
				case "readfrom10":
					o.n, o.err = w.ReadFrom(bytes.NewReader([]byte("0123456789")))
				case "flush":
					o.err = w.Flush()
				case "close":
					o.err = w.Close()
				case "reset":
					s := &schedSink{}
					run.sinks = append(run.sinks, s)
					w.Reset(s)
				}
			}()
			for _, s := range run.sinks {
				o.sinkLen = append(o.sinkLen, len(s.buf))
			}
			run.obs = append(run.obs, o)
			if o.panic != "" {
				return
			}
		}
		run.dump = lz4.VerifDump(w)
	}
}

// writerScheduleScenario explores every schedule (within the bound) of a history on a concurrent
// Writer, with the same reference-model oracle.
func writerScheduleScenario(hist []int) *Scenario {
	h := append([]int(nil), hist...)
	return &Scenario{
		Name: "Whist[" + histString(wAlphabet, h) + "]",
		Opts: verifsched.Options{MaxSteps: 20000},
		Body: func(o *Obs) {
			run := &wRun{}
			o.Extra = run
			o.AddState(func() uint64 {
				d := uint64(len(run.obs))
				for _, ob := range run.obs {
					d = d*1000003 + uint64(ob.n)*7
					if ob.err != nil {
						d += 3
					}
				}
				for _, sk := range run.sinks {
					d = d*1000003 + sk.digest()
				}
				return d
			})
			writerBody(h, nil, run)()
		},
		Check: func(o *Obs, x *verifsched.Execution) (string, string) {
			run, _ := o.Extra.(*wRun)
			if run == nil {
				return "", ""
			}
			sig, what, _ := checkWriter(h, run, x)
			return sig, what
		},
	}
}

func histString(alpha []string, h []int) string {
	var s []string
	for _, a := range h {
		s = append(s, alpha[a])
	}
	return strings.Join(s, ",")
}

// checkWriter compares the run with the reference model. It returns a finding signature.
func checkWriter(hist []int, run *wRun, x *verifsched.Execution) (sig, what string, key string) {
	m := wModel{phase: "new"}
	hs := histString(wAlphabet, hist)
	switch x.Verdict {
	case "deadlock":
		i := len(run.obs)
		call := "?"
		if i < len(hist) {
			call = wAlphabet[hist[i]]
		}
		return fmt.Sprintf("Writer: %s never returns (conc2=%v)", call, containsOp(hist[:i+1], "apply-conc2")), hs, ""
	case "runaway":
		return "Writer: history exceeds the operation budget", hs, ""
	case "panic":
		return "Writer: panic in a library goroutine or runaway sink calls: " + trunc(x.PanicMsg, 60), hs, ""
	}
	for i, a := range hist {
		if i >= len(run.obs) {
			return "Writer: history aborted", hs, ""
		}
		o := run.obs[i]
		op := wAlphabet[a]
		if o.panic != "" {
			return fmt.Sprintf("Writer: %s panics", op), hs + ": " + o.panic, ""
		}
		prevLen := make([]int, len(o.sinkLen))
		if i > 0 {
			copy(prevLen, run.obs[i-1].sinkLen)
		}
		grew := func(s int) int { return o.sinkLen[s] - prevLen[s] }
		for s := range o.sinkLen {
			if s != m.sink && s < len(prevLen) && grew(s) != 0 {
				return fmt.Sprintf("Writer: %s writes to a sink that was replaced by Reset", op), hs, ""
			}
		}
		if m.phase == "failed" && op != "reset" {
			if grew(m.sink) != 0 {
				return fmt.Sprintf("Writer: %s emits output after an earlier call failed", op), hs, ""
			}
			continue
		}
		fail := func() { m.phase = "failed" }
		switch {
		case strings.HasPrefix(op, "apply-"):
			if m.phase == "new" {
				if o.err != nil {
					return fmt.Sprintf("Writer: %s fails before the first write", op), fmt.Sprintf("%s: %v", hs, o.err), ""
				}
				switch op {
				case "apply-bsum":
					m.bsum = true
				case "apply-size7":
					m.size7 = true
				case "apply-conc2":
					m.conc2 = true
				case "apply-legacy":
					m.legacy = true
				case "apply-nocsum":
					m.nocsum = true
				case "apply-level1":
					m.level1 = true
				}
			} else {
				if o.err == nil {
					return fmt.Sprintf("Writer: %s succeeds after the frame was started (phase %s)", op, m.phase), hs, ""
				}
				if grew(m.sink) != 0 {
					return fmt.Sprintf("Writer: failed %s emits output", op), hs, ""
				}
				fail()
			}
		case op == "write7" || op == "writeB1" || op == "write-nil" || op == "readfrom10":
			var data []byte
			switch op {
			case "write7":
				data = []byte("abcdefg")
			case "writeB1":
				data = bigZeros
			case "readfrom10":
				data = []byte("0123456789")
			}
			if m.phase == "closed" {
				if o.err == nil && len(data) > 0 {
					return fmt.Sprintf("Writer: %s after Close succeeds", op), hs, ""
				}
				if grew(m.sink) != 0 {
					return fmt.Sprintf("Writer: %s after Close emits output", op), hs, ""
				}
				if o.err != nil {
					fail()
				}
				continue
			}
			if o.err != nil || o.n != int64(len(data)) {
				return fmt.Sprintf("Writer: %s fails on an open Writer (phase %s)", op, m.phase), fmt.Sprintf("%s: n=%d err=%v", hs, o.n, o.err), ""
			}
			m.accepted = append(m.accepted, data...)
			m.phase = "open"
		case op == "flush":
			if o.err != nil {
				return "Writer: Flush fails", fmt.Sprintf("%s: %v", hs, o.err), ""
			}
			if m.phase == "closed" {
				if grew(m.sink) != 0 {
					return "Writer: Flush after Close emits output", hs, ""
				}
				continue
			}
			m.phase = "open"
			if !m.conc2 {
				// the sink must hold a decodable prefix containing everything written so far
				p, err := ref.Parse(run.sinks[m.sink].buf[:o.sinkLen[m.sink]], ref.Opts{Prefix: true, NoContentSize: true, LegacyLoose: true})
				if err != nil || !bytes.Equal(p.Content, m.accepted) {
					return fmt.Sprintf("Writer: after Flush the sink is not a decodable prefix of everything written (legacy=%v)", m.legacy), fmt.Sprintf("%s: %v", hs, err), ""
				}
			}
		case op == "close":
			if m.phase == "closed" {
				if grew(m.sink) != 0 {
					return "Writer: second Close emits output", hs, ""
				}
				continue
			}
			if o.err != nil {
				return "Writer: Close fails", fmt.Sprintf("%s: %v", hs, o.err), ""
			}
			frame := run.sinks[m.sink].buf[:o.sinkLen[m.sink]]
			p, err := ref.Parse(frame, ref.Opts{NoContentSize: true, LegacyLoose: true})
			if err != nil {
				cls := err.Error()
				if j := strings.LastIndex(cls, " at offset"); j > 0 {
					cls = cls[:j]
				}
				return fmt.Sprintf("Writer: the bytes emitted between Reset and Close are not one valid frame: %s (legacy=%v bsum=%v)", cls, m.legacy, m.bsum), hs, ""
			}
			if !bytes.Equal(p.Content, m.accepted) {
				return "Writer: the frame does not contain exactly the accepted data once, in order", hs + ": " + describeDiff(p.Content, m.accepted), ""
			}
			if p.Legacy != m.legacy {
				return "Writer: LegacyOption is not reflected by the frame", hs, ""
			}
			if !m.legacy {
				if p.BlockSum != m.bsum {
					return "Writer: BlockChecksumOption is not reflected by the frame (persistence across Reset?)", hs, ""
				}
				if p.HasSize != m.size7 || (m.size7 && p.ContentSize != 7) {
					return "Writer: SizeOption is not reflected by the frame (persistence across Reset?)", fmt.Sprintf("%s: has=%v size=%d", hs, p.HasSize, p.ContentSize), ""
				}
				if p.BSCode != 4 {
					return "Writer: BlockSizeOption is not reflected by the frame (persistence across Reset?)", hs, ""
				}
				if p.ContentSum != !m.nocsum {
					return "Writer: ChecksumOption is not reflected by the frame (persistence across Reset?)", hs, ""
				}
			}
			m.phase = "closed"
		case op == "reset":
			m.phase = "new"
			m.accepted = nil
			m.sink++
		}
	}
	if x.Verdict == "leak" && (m.phase == "closed" || m.phase == "new") {
		// a history that stops with an open frame legitimately leaves the pipeline waiting
		return "Writer: goroutine left blocked although the history ended with the Writer closed or reset", hs, ""
	}
	key = fmt.Sprintf("%+v|%d|%s", struct {
		a, b, c, d bool
		p          string
		n, s       int
	}{m.bsum, m.size7, m.conc2, m.legacy, m.phase, len(m.accepted), m.sink}, len(run.sinks), run.dump)
	return "", "", key
}

func containsOp(h []int, op string) bool {
	for _, a := range h {
		if a < len(wAlphabet) && wAlphabet[a] == op {
			return true
		}
	}
	return false
}

func trunc(s string, n int) string {
	if len(s) > n {
		return s[:n]
	}
	return s
}

// writerResetDifferential: the history ends in phase "new" right after a Reset; every suffix of
// up to 2 calls must behave on the reset object exactly as on a fresh object given the options in
// effect (return values and the bytes of the current sink).
func writerResetDifferential(hist []int, suffix []int) (sig, what string) {
	// options in effect: successful Apply calls before any write of their frame
	var pre []lz4.Option
	phase := "new"
	for _, a := range hist {
		op := wAlphabet[a]
		switch {
		case strings.HasPrefix(op, "apply-") && phase == "new":
			switch op {
			case "apply-bsum":
				pre = append(pre, lz4.BlockChecksumOption(true))
			case "apply-size7":
				pre = append(pre, lz4.SizeOption(7))
			case "apply-conc2":
				pre = append(pre, lz4.ConcurrencyOption(2))
			case "apply-legacy":
				pre = append(pre, lz4.LegacyOption(true))
			case "apply-nocsum":
				pre = append(pre, lz4.ChecksumOption(false))
			case "apply-level1":
				pre = append(pre, lz4.CompressionLevelOption(lz4.Level1))
			}
		case strings.HasPrefix(op, "apply-"):
			phase = "failed"
		case op == "reset":
			phase = "new"
		case op == "close":
			if phase != "failed" {
				phase = "closed"
			}
		case op == "flush":
			if phase == "new" {
				phase = "open"
			}
		default:
			if phase == "closed" {
				phase = "failed"
			} else if phase != "failed" {
				phase = "open"
			}
		}
	}
	full := append(append([]int{}, hist...), suffix...)
	a, xa := execWriter(full, nil)
	b, xb := execWriter(suffix, pre)
	if xa.Verdict != xb.Verdict {
		return "Writer: after Reset the object behaves differently from a new one with the same options (hang/leak)", histString(wAlphabet, full)
	}
	if len(a.obs)-len(hist) != len(b.obs) {
		// one of the two runs stopped early (a call that panicked or never returned)
		return "Writer: after Reset the object behaves differently from a new one with the same options (a call panics or hangs on one of them only)", fmt.Sprintf("%s: %d/%d calls completed; verdicts %q/%q", histString(wAlphabet, full), len(a.obs)-len(hist), len(b.obs), xa.Verdict, xb.Verdict)
	}
	for i := range suffix {
		if len(hist)+i >= len(a.obs) || i >= len(b.obs) {
			break
		}
		oa, ob := a.obs[len(hist)+i], b.obs[i]
		if oa.n != ob.n || (oa.err == nil) != (ob.err == nil) || oa.panic != ob.panic {
			return "Writer: after Reset a call returns something else than on a new Writer with the same options", fmt.Sprintf("%s: %s n=%d/%d err=%v/%v", histString(wAlphabet, full), wAlphabet[suffix[i]], oa.n, ob.n, oa.err, ob.err)
		}
	}
	la, lb := a.sinks[len(a.sinks)-1].buf, b.sinks[len(b.sinks)-1].buf
	if containsOp(suffix, "reset") {
		return "", ""
	}
	if !bytes.Equal(la, lb) {
		return "Writer: after Reset the emitted bytes differ from a new Writer's with the same options", histString(wAlphabet, full) + ": " + describeDiff(la, lb)
	}
	return "", ""
}

type c17Case struct {
	Obj    string `json:"object"`
	Hist   []int  `json:"history"`
	Names  string `json:"calls"`
	Suffix []int  `json:"suffix,omitempty"`
}

func c17Writer(c *ev.Ctx, depth int, states map[string]bool, transitions *int64) {
	schedDepth := 3
	if c.Thorough() {
		schedDepth = 4
	}
	var rec func(h []int)
	failedPrefix := map[string]bool{}
	rec = func(h []int) {
		if len(h) > 0 {
			run, x := execWriter(h, nil)
			*transitions += int64(len(h))
			c.Eval(1)
			c.Distinct(1)
			sig, what, key := checkWriter(h, run, x)
			if sig != "" {
				k := c17Case{Obj: "Writer", Hist: append([]int(nil), h...), Names: histString(wAlphabet, h)}
				hh := append([]int(nil), h...)
				c.ConfirmFree(&ev.Finding{Sig: sig, What: what, Case: k}, Flavour != "sched", func() *ev.Finding {
					r2, x2 := execWriter(hh, nil)
					if s2, _, _ := checkWriter(hh, r2, x2); s2 != "" {
						return &ev.Finding{Sig: s2}
					}
					return nil
				})
				failedPrefix[histString(wAlphabet, h)] = true
				return // extensions of a failing history add nothing
			}
			states[key] = true
			if len(h) == 3 && len(states)%50 == 0 {
				c.Sample(map[string]interface{}{"object": "Writer", "history": histString(wAlphabet, h)})
			}
			// schedule axis: histories on a concurrent Writer (Apply(Concurrency 2) first) are also
			// explored over every interleaving within preemption bound 1
			if wAlphabet[h[0]] == "apply-conc2" && len(h) >= 2 && len(h) <= schedDepth && x.Concurrent {
				exploreLocal(c, writerScheduleScenario(h), 1)
				c.Add("histories_explored_over_schedules", 1)
			}
			// differential Reset oracle
			if wAlphabet[h[len(h)-1]] == "reset" && len(h) <= depth-1 {
				for s1 := range wAlphabet {
					for s2 := -1; s2 < len(wAlphabet); s2++ {
						suffix := []int{s1}
						if s2 >= 0 {
							if len(h)+2 > depth+1 {
								continue
							}
							suffix = append(suffix, s2)
						}
						c.Eval(1)
						c.Add("reset_differential_pairs", 1)
						*transitions += int64(2*len(suffix) + len(h))
						if sig, what := writerResetDifferential(h, suffix); sig != "" {
							k := c17Case{Obj: "Writer-reset", Hist: append([]int(nil), h...), Suffix: suffix, Names: histString(wAlphabet, h) + " || " + histString(wAlphabet, suffix)}
							hh, ss := append([]int(nil), h...), append([]int(nil), suffix...)
							c.ConfirmFree(&ev.Finding{Sig: sig, What: what, Case: k}, Flavour != "sched", func() *ev.Finding {
								if s2, _ := writerResetDifferential(hh, ss); s2 != "" {
									return &ev.Finding{Sig: s2}
								}
								return nil
							})
						}
					}
				}
			}
		}
		if len(h) == depth {
			return
		}
		for a := range wAlphabet {
			if len(h) == 0 && !c.Mine(int64(a)) {
				continue
			}
			if len(h) == 1 && c.NShards > len(wAlphabet) {
				// more shards than first symbols: split on the second symbol as well
				if !c.Mine(int64(h[0]*len(wAlphabet) + a)) {
					continue
				}
			}
			rec(append(h, a))
		}
	}
	if c.NShards > len(wAlphabet) {
		// shard on (first, second) pairs
		for a := range wAlphabet {
			h := []int{a}
			if c.Mine(int64(a)) {
				run, x := execWriter(h, nil)
				if sig, what, _ := checkWriter(h, run, x); sig != "" {
					c.Report(&ev.Finding{Sig: sig, What: what, Case: c17Case{Obj: "Writer", Hist: h, Names: histString(wAlphabet, h)}})
				}
			}
			for b := range wAlphabet {
				if c.Mine(int64(a*len(wAlphabet) + b)) {
					rec([]int{a, b})
				}
			}
		}
		return
	}
	rec(nil)
}

// ---------------------------------------------------------------------------------------------
// Reader
// ---------------------------------------------------------------------------------------------

type rSource struct {
	Name     string
	Stream   []byte
	Content  []byte // what a Reader must deliver
	FrameLen int    // bytes the Reader may consume
	Size     int    // header content size
	Bad      bool   // must fail without delivering anything wrong
	Loose    bool   // not judged against the model (the property does not say whether it is accepted): only hangs, panics and the Reset differential
}

func rSources() []rSource {
	mk := func(sizeField bool, tag byte, nblocks int) ([]byte, []byte) {
		fp := ref.FramePlan{BSCode: 4, Indep: true, ContentSum: true, HasSize: sizeField}
		var content []byte
		for i := 0; i < nblocks; i++ {
			lit := payload(tag+byte(i), 6)
			fp.Blocks = append(fp.Blocks, ref.BlockPlan{Raw: true, Data: lit, Decoded: lit})
			content = append(content, lit...)
		}
		fp.ContentSize = uint64(len(content))
		fr, _ := ref.EncodeFrame(fp)
		return fr, content
	}
	fa, ca := mk(true, 'A', 2)
	fb, cb := mk(false, 'P', 3)
	trail := append(append([]byte{}, fb...), 1, 2, 3, 4, 5, 6, 7, 8, 9)
	cat := append(append([]byte{}, fa...), fb...)
	// dependent-block frames
	okb, _ := ref.BuildBlock([]ref.Seq{{Lit: []byte("ABCDEFGH"), Off: 4, MLen: 6}, {Lit: []byte("xyz12")}}, nil)
	dep := ref.FramePlan{BSCode: 4, Indep: false, ContentSum: true, Blocks: []ref.BlockPlan{okb}}
	fd, cd := ref.EncodeFrame(dep)
	bad := ref.FramePlan{BSCode: 4, Indep: false, Blocks: []ref.BlockPlan{{Data: ref.EncodeBlock([]ref.Seq{{Lit: []byte("ab"), Off: 6, MLen: 4}, {Lit: []byte("tail5")}}), Decoded: nil}}}
	fbad, _ := ref.EncodeFrame(bad)
	// a legacy stream that ends with the Linux kernel's trailer (total decoded size): whether it is
	// accepted is the library's choice; a reused Reader must make the same choice as a new one
	kt := []byte{0x02, 0x21, 0x4C, 0x18}
	ktc := payload('K', 12)
	kb := ref.EncodeBlock([]ref.Seq{{Lit: ktc}})
	kt = append(kt, byte(len(kb)), 0, 0, 0)
	kt = append(kt, kb...)
	kt = append(kt, byte(len(ktc)), 0, 0, 0)
	return []rSource{

		{Name: "A", Stream: fa, Content: ca, FrameLen: len(fa), Size: len(ca)},
		{Name: "B+trail", Stream: trail, Content: cb, FrameLen: len(fb)},
		{Name: "A||B", Stream: cat, Content: ca, FrameLen: len(fa), Size: len(ca)},
		{Name: "empty", Stream: nil, Content: nil, FrameLen: 0},
		{Name: "dep-ok", Stream: fd, Content: cd, FrameLen: len(fd)},
		{Name: "dep-bad", Stream: fbad, Bad: true, FrameLen: len(fbad)},
		{Name: "legacy-kt", Stream: kt, Content: ktc, FrameLen: len(kt), Loose: true},
	}
}

func rAlphabet(srcs []rSource) []string {
	a := []string{"apply-conc2", "read0", "read1", "read5", "readB", "writeto", "size"}
	for _, s := range srcs {
		a = append(a, "reset:"+s.Name)
	}
	return a
}

type rStepObs struct {
	n      int64
	data   []byte
	err    error
	panic  string
	srcPos int
}

type rRun struct {
	obs  []rStepObs
	dump string
}

func execReader(alpha []string, srcs []rSource, hist []int, start int, pre []lz4.Option) (*rRun, *verifsched.Execution) {
	run := &rRun{}
	x := verifsched.Run(nil, verifsched.Options{MaxSteps: 20000}, func() {
		cur := &schedSource{data: srcs[start].Stream}
		r := lz4.NewReader(cur)
		if len(pre) > 0 {
			r.Apply(pre...)
		}
		bigBuf := make([]byte, 65536)
		for _, a := range hist {
			var o rStepObs
			func() {
				defer func() {
					if p := recover(); p != nil {
						o.panic = fmt.Sprint(p)
					}
				}()
				op := alpha[a]
				switch {
				case op == "apply-conc2":
					o.err = r.Apply(lz4.ConcurrencyOption(2))
				case op == "read0" || op == "read1" || op == "read5" || op == "readB":
					n := map[string]int{"read0": 0, "read1": 1, "read5": 5, "readB": 65536}[op]
					k, err := r.Read(bigBuf[:n])
					o.n, o.err, o.data = int64(k), err, append([]byte(nil), bigBuf[:k]...)
				case op == "writeto":
					var out bytes.Buffer
					o.n, o.err = r.WriteTo(&out)
					o.data = out.Bytes()
				case op == "size":
					o.n = int64(r.Size())
				case strings.HasPrefix(op, "reset:"):
					for i := range srcs {
						if "reset:"+srcs[i].Name == op {
							cur = &schedSource{data: srcs[i].Stream}
							r.Reset(cur)
						}
					}
				}
			}()
			o.srcPos = cur.pos
			run.obs = append(run.obs, o)
			if o.panic != "" {
				return
			}
		}
		run.dump = lz4.VerifDump(r)
	})
	return run, x
}

func checkReader(alpha []string, srcs []rSource, hist []int, start int, run *rRun, x *verifsched.Execution) (sig, what, key string) {
	hs := histString(alpha, hist)
	switch x.Verdict {
	case "deadlock":
		i := len(run.obs)
		call := "?"
		if i < len(hist) {
			call = alpha[hist[i]]
		}
		return fmt.Sprintf("Reader: %s never returns", call), hs, ""
	case "runaway":
		return "Reader: history exceeds the operation budget", hs, ""
	case "panic":
		return "Reader: panic in a library goroutine: " + trunc(x.PanicMsg, 60), hs, ""
	}
	// "leak" is not judged here: a history may stop in the middle of a stream
	for _, a := range hist {
		for j := range srcs {
			if srcs[j].Loose && alpha[a] == "reset:"+srcs[j].Name {
				return "", "", "loose|" + hs
			}
		}
	}
	src := &srcs[start]
	midReset := false
	defer func() {
		// one root cause, one signature: a concurrent Reader reset in the middle of a stream keeps
		// the previous stream's goroutines running on the shared frame state
		if sig != "" && midReset {
			sig, what = "Reader: concurrent Reader reset before the end of a stream misbehaves on the next stream (the previous pipeline keeps running on the shared frame state)", hs+" ["+sig+"]"
		}
	}()
	phase := "new" // new | reading | done | failed
	cursor := 0
	conc := false
	for i, a := range hist {
		if i >= len(run.obs) {
			return "Reader: history aborted", hs, ""
		}
		o := run.obs[i]
		op := alpha[a]
		if o.panic != "" {
			return fmt.Sprintf("Reader: %s panics", strings.SplitN(op, ":", 2)[0]), hs + ": " + o.panic, ""
		}
		if strings.HasPrefix(op, "reset:") {
			for j := range srcs {
				if "reset:"+srcs[j].Name == op {
					src = &srcs[j]
				}
			}
			if conc && phase == "reading" {
				midReset = true
			}
			phase, cursor = "new", 0
			continue
		}
		if o.srcPos > src.FrameLen && !conc {
			return "Reader: consumes bytes of the source beyond the end of the frame", fmt.Sprintf("%s: position %d, frame ends at %d", hs, o.srcPos, src.FrameLen), ""
		}
		// whatever is delivered must continue the content
		deliver := func() (string, string) {
			if len(o.data) == 0 {
				return "", ""
			}
			if src.Bad || cursor+len(o.data) > len(src.Content) || !bytes.Equal(o.data, src.Content[cursor:cursor+len(o.data)]) {
				return fmt.Sprintf("Reader: delivers bytes that do not continue the stream's content (source %s)", src.Name), hs
			}
			cursor += len(o.data)
			return "", ""
		}
		if phase == "failed" {
			if s, w := deliver(); s != "" {
				return s, w, ""
			}
			continue
		}
		switch op {
		case "apply-conc2":
			if phase == "new" {
				if o.err != nil {
					return "Reader: Apply fails on a new Reader", hs, ""
				}
				conc = true
			} else {
				if o.err == nil {
					return "Reader: Apply succeeds after reading started", hs, ""
				}
				phase = "failed"
			}
		case "size":
			want := int64(0)
			if phase == "reading" || phase == "done" {
				want = int64(src.Size)
			}
			if o.n != want && !(phase == "new") {
				return "Reader: Size differs from the header's content size", fmt.Sprintf("%s: got %d want %d", hs, o.n, want), ""
			}
			if phase == "new" && o.n != 0 {
				return "Reader: Size is non-zero before any header has been read", hs, ""
			}
		case "read0", "read1", "read5", "readB":
			want := map[string]int{"read0": 0, "read1": 1, "read5": 5, "readB": 65536}[op]
			if int(o.n) > want {
				return "Reader: Read returns more than len(p)", hs, ""
			}
			if s, w := deliver(); s != "" {
				return s, w, ""
			}
			if src.Bad || src.Name == "empty" {
				if want > 0 || o.err != nil {
					if o.err == nil {
						return fmt.Sprintf("Reader: Read succeeds on source %s", src.Name), hs, ""
					}
					if src.Bad && errors.Is(o.err, io.EOF) && !errors.Is(o.err, io.ErrUnexpectedEOF) {
						return "Reader: invalid dependent-block frame ends cleanly", hs, ""
					}
					phase = "failed"
				} else {
					phase = "reading"
				}
				continue
			}
			switch {
			case o.err == nil:
				if want > 0 && o.n == 0 {
					return "Reader: Read returns (0, nil) for a non-empty buffer", hs, ""
				}
				if phase == "done" && want > 0 {
					return "Reader: Read succeeds after the end of the stream", hs, ""
				}
				if phase == "new" {
					phase = "reading"
				}
			case o.err == io.EOF:
				if cursor != len(src.Content) {
					return "Reader: io.EOF before the whole content was delivered", fmt.Sprintf("%s: %d of %d", hs, cursor, len(src.Content)), ""
				}
				if phase == "done" && i > 0 && o.srcPos != run.obs[i-1].srcPos {
					return "Reader: Read after the end of the stream consumes more of the source", hs, ""
				}
				phase = "done"
			default:
				return fmt.Sprintf("Reader: Read fails on a valid stream (source %s, phase %s): %s", src.Name, phase, errClass(o.err)), fmt.Sprintf("%s: %v", hs, o.err), ""
			}
		case "writeto":
			if s, w := deliver(); s != "" {
				return s, w, ""
			}
			if src.Bad || src.Name == "empty" {
				if o.err == nil {
					return fmt.Sprintf("Reader: WriteTo succeeds on source %s", src.Name), hs, ""
				}
				phase = "failed"
				continue
			}
			if o.err != nil {
				if phase == "reading" {
					phase = "failed" // WriteTo after Read is refused by the implementation: accepted as long as nothing wrong is delivered
					continue
				}
				return fmt.Sprintf("Reader: WriteTo fails on a valid stream (phase %s): %s", phase, errClass(o.err)), fmt.Sprintf("%s: %v", hs, o.err), ""
			}
			if cursor != len(src.Content) {
				return "Reader: WriteTo returns without error before the whole content was delivered", hs, ""
			}
			if o.n != int64(len(o.data)) {
				return "Reader: WriteTo returns a count different from the bytes written", hs, ""
			}
			phase = "done"
		}
	}
	key = fmt.Sprintf("%s|%s|%d|%v|%s", src.Name, phase, cursor, conc, run.dump)
	return "", "", key
}

// readerResetDifferential: after Reset(src) every suffix of up to 2 calls must behave as on a new
// Reader over the same source with the same options.
func readerResetDifferential(alpha []string, srcs []rSource, hist []int, suffix []int) (sig, what string) {
	last := alpha[hist[len(hist)-1]]
	start := 0
	for j := range srcs {
		if "reset:"+srcs[j].Name == last {
			start = j
		}
	}
	var pre []lz4.Option
	phase := "new"
	for _, a := range hist {
		op := alpha[a]
		switch {
		case op == "apply-conc2" && phase == "new":
			pre = []lz4.Option{lz4.ConcurrencyOption(2)}
		case strings.HasPrefix(op, "reset:"):
			phase = "new"
		case op == "size":
		default:
			phase = "used"
		}
	}
	midReset := false
	{
		conc, ph := false, "new"
		for _, a := range hist {
			op := alpha[a]
			switch {
			case op == "apply-conc2" && ph == "new":
				conc = true
			case strings.HasPrefix(op, "reset:"):
				if conc && ph == "reading" {
					midReset = true
				}
				ph = "new"
			case strings.HasPrefix(op, "read"): // even Read(0) parses the header and starts the pipeline
				if ph == "new" {
					ph = "reading"
				}
			case op == "writeto":
				ph = "done"
			}
		}
	}
	defer func() {
		if sig != "" && midReset {
			sig, what = "Reader: concurrent Reader reset before the end of a stream misbehaves on the next stream (the previous pipeline keeps running on the shared frame state)", what+" ["+sig+"]"
		}
	}()
	full := append(append([]int{}, hist...), suffix...)
	a, xa := execReader(alpha, srcs, full, 0, nil)
	b, xb := execReader(alpha, srcs, suffix, start, pre)
	if (xa.Verdict == "deadlock") != (xb.Verdict == "deadlock") {
		return "Reader: after Reset the object behaves differently from a new one (hang)", histString(alpha, full)
	}
	for i := range suffix {
		if len(hist)+i >= len(a.obs) || i >= len(b.obs) {
			break
		}
		oa, ob := a.obs[len(hist)+i], b.obs[i]
		if oa.n != ob.n || !bytes.Equal(oa.data, ob.data) || errClass(oa.err) != errClass(ob.err) || oa.panic != ob.panic {
			if strings.HasPrefix(errClass(oa.err), "other(") && strings.HasPrefix(errClass(ob.err), "other(") && oa.n == ob.n && bytes.Equal(oa.data, ob.data) {
				continue
			}
			return "Reader: after Reset a call returns something else than on a new Reader with the same options", fmt.Sprintf("%s: %s n=%d/%d err=%v/%v", histString(alpha, full), alpha[suffix[i]], oa.n, ob.n, oa.err, ob.err)
		}
	}
	return "", ""
}

func c17Reader(c *ev.Ctx, depth int, states map[string]bool, transitions *int64) {
	srcs := rSources()
	alpha := rAlphabet(srcs)
	var rec func(h []int)
	rec = func(h []int) {
		if len(h) > 0 {
			run, x := execReader(alpha, srcs, h, 0, nil)
			*transitions += int64(len(h))
			c.Eval(1)
			c.Distinct(1)
			sig, what, key := checkReader(alpha, srcs, h, 0, run, x)
			if sig != "" {
				k := c17Case{Obj: "Reader", Hist: append([]int(nil), h...), Names: histString(alpha, h)}
				hh := append([]int(nil), h...)
				c.ConfirmFree(&ev.Finding{Sig: sig, What: what, Case: k}, Flavour != "sched", func() *ev.Finding {
					r2, x2 := execReader(alpha, srcs, hh, 0, nil)
					if s2, _, _ := checkReader(alpha, srcs, hh, 0, r2, x2); s2 != "" {
						return &ev.Finding{Sig: s2}
					}
					return nil
				})
				return
			}
			states["R|"+key] = true
			if len(h) == 3 && len(states)%70 == 0 {
				c.Sample(map[string]interface{}{"object": "Reader", "history": histString(alpha, h)})
			}
			if strings.HasPrefix(alpha[h[len(h)-1]], "reset:") && len(h) <= depth-1 {
				for s1 := range alpha {
					for s2 := -1; s2 < len(alpha); s2++ {
						suffix := []int{s1}
						if s2 >= 0 {
							if len(h)+2 > depth {
								continue
							}
							suffix = append(suffix, s2)
						}
						c.Eval(1)
						c.Add("reset_differential_pairs", 1)
						*transitions += int64(2*len(suffix) + len(h))
						if sig, what := readerResetDifferential(alpha, srcs, h, suffix); sig != "" {
							k := c17Case{Obj: "Reader-reset", Hist: append([]int(nil), h...), Suffix: suffix, Names: histString(alpha, h) + " || " + histString(alpha, suffix)}
							hh, ss := append([]int(nil), h...), append([]int(nil), suffix...)
							c.ConfirmFree(&ev.Finding{Sig: sig, What: what, Case: k}, Flavour != "sched", func() *ev.Finding {
								if s2, _ := readerResetDifferential(alpha, srcs, hh, ss); s2 != "" {
									return &ev.Finding{Sig: s2}
								}
								return nil
							})
						}
					}
				}
			}
		}
		if len(h) == depth {
			return
		}
		for a := range alpha {
			if len(h) == 1 && !c.Mine(int64(h[0]*len(alpha)+a)) {
				continue
			}
			rec(append(h, a))
		}
	}
	for a := range alpha {
		h := []int{a}
		if c.Mine(int64(a)) {
			run, x := execReader(alpha, srcs, h, 0, nil)
			if sig, what, _ := checkReader(alpha, srcs, h, 0, run, x); sig != "" {
				c.Report(&ev.Finding{Sig: sig, What: what, Case: c17Case{Obj: "Reader", Hist: h, Names: histString(alpha, h)}})
			}
		}
		for b := range alpha {
			if c.Mine(int64(a*len(alpha) + b)) {
				rec([]int{a, b})
			}
		}
	}
}

func init() {
	ev.Register(&ev.Driver{
		Prop:  "C17",
		Level: "model_checking",
		Rule: "explicit-state search over call histories on the real objects: every history up to depth D (quick 4, thorough 5 for the Writer's 13-symbol alphabet {Apply(BlockChecksum), Apply(Size 7), Apply(Concurrency 2), Apply(Legacy), Apply(Checksum false), Apply(Level1), Write 7 bytes, Write B+1 bytes, Write nil, ReadFrom 10 bytes, Flush, Close, Reset(next sink)}; quick 4, thorough 5 for the Reader's 14-symbol alphabet {Apply(Concurrency 2), Read 0/1/5/64K, WriteTo, Size, Reset(src) for seven sources: frame with size field, frame with trailing bytes, two concatenated frames, empty, valid dependent-block frame, dependent-block frame reaching before the start, legacy stream ending with the kernel's size trailer (histories through this one are judged for hangs, panics and by the Reset differential only: the property does not say whether such a stream is accepted)}). " +
			"Each history runs as thread 0 of a controlled-scheduler execution (canonical schedule), so a call that never returns is a deadlock state; every call's results are compared with a reference model; after every Reset every suffix of <= 2 calls is compared with a brand-new object with the same options (differential). distinct_nontrivial = histories executed.",
		Assumptions: []string{"after any call has returned an error the model only requires that nothing wrong is emitted/delivered until the next Reset",
			"WriteTo after a partial Read may fail (the implementation refuses it) as long as nothing wrong is delivered",
			"concurrent objects run the canonical schedule here; other schedules are explored in C08"},
		Alt: []string{"sched"}, ReplayIn: "sched",
		Run: func(c *ev.Ctx) {
			if Flavour != "sched" {
				return
			}
			depth := 4
			if c.Thorough() {
				depth = 5
			}
			states := map[string]bool{}
			var transitions int64
			c17Writer(c, depth, states, &transitions)
			c17Reader(c, depth, states, &transitions)
			c.Add("transitions", transitions)
			c.Add("states_in_shard", int64(len(states)))
			c.Max("depth_completed", int64(depth))
			c.Flag("exhaustive", true)
		},
		Finalize: func(cov map[string]interface{}, p *ev.Partial) {
			cov["states"] = p.Counters["states_in_shard"]
			cov["transitions"] = p.Counters["transitions"]
			cov["traces_validated_against_impl"] = p.Evaluations
			cov["explanation"] = "states = distinct (reference-model state, private-state dump of the object) pairs reached (summed over shards, which explore disjoint history prefixes); every history is executed on the real object, so every model trace is validated against the implementation"
		},
		Replay: func(c *ev.Ctx) {
			var k c17Case
			if err := json.Unmarshal(c.ReplayRaw, &k); err != nil {
				c.Machinery("bad replay: %v", err)
				return
			}
			srcs := rSources()
			alpha := rAlphabet(srcs)
			switch k.Obj {
			case "Writer":
				run, x := execWriter(k.Hist, nil)
				if sig, what, _ := checkWriter(k.Hist, run, x); sig != "" {
					c.Report(&ev.Finding{Sig: sig, What: what, Case: k})
				}
			case "Writer-reset":
				if sig, what := writerResetDifferential(k.Hist, k.Suffix); sig != "" {
					c.Report(&ev.Finding{Sig: sig, What: what, Case: k})
				}
			case "Reader":
				run, x := execReader(alpha, srcs, k.Hist, 0, nil)
				if sig, what, _ := checkReader(alpha, srcs, k.Hist, 0, run, x); sig != "" {
					c.Report(&ev.Finding{Sig: sig, What: what, Case: k})
				}
			case "Reader-reset":
				if sig, what := readerResetDifferential(alpha, srcs, k.Hist, k.Suffix); sig != "" {
					c.Report(&ev.Finding{Sig: sig, What: what, Case: k})
				}
			}
		},
	})
}
