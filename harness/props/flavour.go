// Package props holds one driver per property.
package props

// Flavour is set at link time by vcheck (-X): plain, noasm, sched or race.
var Flavour = "plain"
