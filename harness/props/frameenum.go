package props

import (
	"bytes"
	"encoding/hex"
	"encoding/json"
	"errors"
	"fmt"
	"io"
	"runtime"
	"runtime/debug"
	"strings"
	"time"

	lz4 "github.com/pierrec/lz4/v4"

	"verif/harness/ev"
	"verif/harness/ref"
)

// C05 (acceptance soundness under mutation), C06 (truncation), C07 (termination on arbitrary
// input): fault enumeration over base frames.

type baseFrame struct {
	Name    string
	Frame   []byte
	Content []byte
	Legacy  bool
}

// baseFrames: (i) reference-encoder frames with 3 small blocks for every flag combination and
// raw/compressed mix (incl. an empty raw block in the middle), (ii) Writer-produced frames,
// (iii) legacy frames, (iv) a frame behind a skippable frame.
func baseFrames(thorough bool) []baseFrame {
	var out []baseFrame
	mixes := []string{"ccc", "rcc", "crc", "ccr", "rrr", "c0c"}
	for _, mix := range mixes {
		for flags := 0; flags < 16; flags++ {
			fp := ref.FramePlan{BSCode: 4, Indep: flags&8 == 0, BlockSum: flags&1 != 0, ContentSum: flags&2 != 0, HasSize: flags&4 != 0}
			var hist []byte
			for i, m := range mix {
				lit := payload(byte('a'+i*5), 9+i*7)
				switch m {
				case 'r':
					fp.Blocks = append(fp.Blocks, ref.BlockPlan{Raw: true, Data: lit, Decoded: lit})
					hist = append(hist, lit...)
				case '0':
					fp.Blocks = append(fp.Blocks, ref.BlockPlan{Raw: true, Data: []byte{}, Decoded: []byte{}})
				default:
					seqs := []ref.Seq{{Lit: lit[:6], Off: 2, MLen: 8}, {Lit: lit[6:]}}
					if !fp.Indep && len(hist) >= 12 {
						// a match reaching into the previous block
						seqs = []ref.Seq{{Lit: lit[:3], Off: 3 + 9, MLen: 6}, {Lit: lit[3:]}}
					}
					bp, ok := ref.BuildBlock(seqs, hist)
					if !ok {
						panic("baseFrames: block plan does not decode")
					}
					fp.Blocks = append(fp.Blocks, bp)
					hist = append(hist, bp.Decoded...)
				}
			}
			if fp.HasSize {
				fp.ContentSize = uint64(len(hist))
			}
			fr, content := ref.EncodeFrame(fp)
			if p, err := ref.Parse(fr, ref.Opts{}); err != nil || !bytes.Equal(p.Content, content) {
				panic(fmt.Sprintf("baseFrames: reference encoder and parser disagree: %v", err))
			}
			out = append(out, baseFrame{Name: fmt.Sprintf("enc-%s-f%x", mix, flags), Frame: fr, Content: content})
		}
	}
	// Writer-produced
	for i, o := range optionGrid(false) {
		if o.BS != 65536 || o.Conc != 1 || o.Legacy || (o.Level != 0 && !thorough) {
			continue
		}
		ins := []inputSpec{{0, "zeros"}, {1, "zeros"}, {100, "lcg"}, {65537, "zeros"}}
		if o.Level == 0 {
			// full-size stored (incompressible) blocks: exactly one block, and one block plus a short one
			ins = append(ins, inputSpec{65536, "lcg"}, inputSpec{65541, "lcg"})
		}
		for _, in := range ins {
			input := in.build()
			fr, err := produceFrame(o, input, delivery{Kind: "write"})
			if err != nil {
				continue
			}
			out = append(out, baseFrame{Name: fmt.Sprintf("w%d-%d%s", i, in.Len, in.Content), Frame: fr, Content: input})
		}
	}
	// legacy: two small blocks (reference encoder) and one Writer-produced
	{
		fp := ref.FramePlan{Legacy: true}
		var content []byte
		for i := 0; i < 2; i++ {
			lit := payload(byte('k'+i), 14+i*9)
			bp, _ := ref.BuildBlock([]ref.Seq{{Lit: lit[:6], Off: 3, MLen: 9}, {Lit: lit[6:]}}, nil)
			fp.Blocks = append(fp.Blocks, bp)
			content = append(content, bp.Decoded...)
		}
		fr, _ := ref.EncodeFrame(fp)
		out = append(out, baseFrame{Name: "legacy-enc", Frame: fr, Content: content, Legacy: true})
		in := inputSpec{1000, "p7"}
		if fr, err := produceFrame(wopts{BS: 4 << 20, Legacy: true, Conc: 1}, in.build(), delivery{Kind: "write"}); err == nil {
			out = append(out, baseFrame{Name: "legacy-writer", Frame: fr, Content: in.build(), Legacy: true})
		}
	}
	// two concatenated legacy frames
	{
		var fr, content []byte
		for f := 0; f < 2; f++ {
			fp := ref.FramePlan{Legacy: true}
			for i := 0; i < 2; i++ {
				lit := payload(byte('p'+i+2*f), 11+i*5)
				bp, _ := ref.BuildBlock([]ref.Seq{{Lit: lit[:6], Off: 2, MLen: 7}, {Lit: lit[6:]}}, nil)
				fp.Blocks = append(fp.Blocks, bp)
				content = append(content, bp.Decoded...)
			}
			one, _ := ref.EncodeFrame(fp)
			fr = append(fr, one...)
		}
		if p, err := ref.Parse(fr, ref.Opts{LegacyLoose: true}); err != nil || !bytes.Equal(p.Content, content) {
			panic(fmt.Sprintf("baseFrames: concatenated legacy frames: %v", err))
		}
		out = append(out, baseFrame{Name: "legacy-x2", Frame: fr, Content: content, Legacy: true})
	}
	// skippable frame in front
	{
		f3, c3 := smallFrame(true, true, 2, false)
		sk := []byte{0x53, 0x2A, 0x4D, 0x18, 5, 0, 0, 0, 1, 2, 3, 4, 5}
		out = append(out, baseFrame{Name: "skip+frame", Frame: append(sk, f3...), Content: c3})
	}
	return out
}

type readCfg struct {
	Conc    int  `json:"conc"`
	WriteTo bool `json:"write_to,omitempty"`
	Buf     int  `json:"buf,omitempty"`
}

func readCfgs() []readCfg {
	var cs []readCfg
	for _, conc := range []int{1, 2} {
		cs = append(cs, readCfg{conc, false, 1}, readCfg{conc, false, 7}, readCfg{conc, false, 65536}, readCfg{Conc: conc, WriteTo: true})
	}
	return cs
}

type countingSrc struct {
	data  []byte
	pos   int
	calls int
}

func (s *countingSrc) Read(p []byte) (int, error) {
	s.calls++
	if s.calls > 10_000_000 {
		panic("source call budget exceeded")
	}
	if s.pos >= len(s.data) {
		return 0, io.EOF
	}
	n := copy(p, s.data[s.pos:])
	s.pos += n
	return n, nil
}

type decodeOutcome struct {
	out      []byte
	err      error
	clean    bool
	panic    string
	consumed int
}

var smallBufs = map[int][]byte{}

// decodeStream runs decodeStream1 under a watchdog: sub-millisecond work that has not returned
// after 30 s is a call that blocks forever (free-running goroutines; the exhaustive, timer-free
// decision of blocking is C08's, under the controlled scheduler).
func decodeStream(stream []byte, rc readCfg, limit int) decodeOutcome {
	cls := rc.Conc > 1
	if hungClass[cls] {
		hungSkipped++
		return decodeOutcome{err: errSkippedHung}
	}
	ch := make(chan decodeOutcome, 1)
	go func() { ch <- decodeStream1(stream, rc, limit) }()
	select {
	case r := <-ch:
		return r
	case <-time.After(watchdog):
	}
	// not back after 30 s: slow (e.g. busy allocating gigabytes) or blocked? give it two more minutes
	select {
	case r := <-ch:
		slowCalls++
		return r
	case <-time.After(4 * watchdog):
	}
	hungCount[cls]++
	if hungCount[cls] >= 7 {
		// the finding has been confirmed (1 + 5 re-executions); every further hanging case would
		// cost 150 s: stop running this class in this worker (counted in the evidence)
		hungClass[cls] = true
	}
	return decodeOutcome{err: errBlocked}
}

var (
	watchdog       = 30 * time.Second
	errBlocked     = errors.New("call does not return (blocked for 150 s on sub-millisecond work)")
	errSkippedHung = errors.New("case skipped: this reader class already hangs in this worker")
	hungCount      = map[bool]int{}
	hungClass      = map[bool]bool{}
	hungSkipped    int64
	slowCalls      int64
)

func decodeStream1(stream []byte, rc readCfg, limit int) (res decodeOutcome) {
	src := &countingSrc{data: stream}
	defer func() {
		if r := recover(); r != nil {
			res.panic = fmt.Sprint(r)
		}
		res.consumed = src.pos
	}()
	r := lz4.NewReader(src)
	if err := r.Apply(lz4.ConcurrencyOption(rc.Conc)); err != nil {
		res.err = err
		return
	}
	if rc.WriteTo {
		var out bytes.Buffer
		_, err := r.WriteTo(&out)
		res.out, res.err, res.clean = out.Bytes(), err, err == nil
		return
	}
	buf := make([]byte, rc.Buf)
	var out []byte
	for calls := 0; ; calls++ {
		n, err := r.Read(buf)
		out = append(out, buf[:n]...)
		scribble(buf[:n]) // the caller reuses its buffer
		if err != nil {
			res.out, res.err, res.clean = out, err, err == io.EOF
			return
		}
		if len(out) > limit || calls > 20_000_000 {
			res.out, res.err = out, errors.New("Read does not end (output limit exceeded)")
			return
		}
	}
}

type streamCase struct {
	Fam    string  `json:"fam"`
	Base   string  `json:"base,omitempty"`
	Mut    string  `json:"mut,omitempty"`
	Hex    string  `json:"stream_hex,omitempty"`
	Gen    string  `json:"gen,omitempty"` // generator description for streams too long to store
	Read   readCfg `json:"read"`
	stream []byte
}

func (k streamCase) frozen() streamCase {
	if len(k.stream) <= 1<<18 {
		k.Hex = hex.EncodeToString(k.stream)
	}
	k.stream = append([]byte(nil), k.stream...) // private copy: the enumerator reuses its buffer
	return k
}

func (k *streamCase) bytes() []byte {
	if k.stream == nil && k.Hex != "" {
		k.stream, _ = hex.DecodeString(k.Hex)
	}
	return k.stream
}

var c05Lenient = ref.Opts{NoVersion: true, NoReserved: true, NoDecodedMax: true, NoContentSize: true, AllowEndsMatch: true, LegacyLoose: true, IgnoreDictID: true}

// ---- C05 ---------------------------------------------------------------------------------------

func c05Check(k *streamCase, base *baseFrame) *ev.Finding {
	res := decodeStream(k.bytes(), k.Read, 1<<22)
	if res.err == errSkippedHung {
		return nil
	}
	if res.err == errBlocked {
		return &ev.Finding{Sig: fmt.Sprintf("Reader blocks forever on a corrupted frame; conc>1=%v", k.Read.Conc > 1), What: fmt.Sprintf("base=%s mutation=%s", k.Base, k.Mut), Case: k.frozen()}
	}
	if res.panic != "" || !res.clean {
		return nil // C07 / not an acceptance
	}
	consumed := k.bytes()[:res.consumed]
	p, err := ref.Parse(consumed, c05Lenient)
	path := "Read"
	if k.Read.WriteTo {
		path = "WriteTo"
	}
	if err != nil {
		cls := err.Error()
		if i := strings.LastIndex(cls, " at offset"); i > 0 {
			cls = cls[:i]
		}
		if cls == "ref: truncated magic" && p != nil && p.Skipped > 0 && len(res.out) == 0 {
			// nothing but complete skippable frames: a valid, empty stream for the Reader
			end := 0
			for _, f := range p.Fields {
				end = f.Off + f.Len
			}
			if end == len(consumed) {
				return nil
			}
		}
		return &ev.Finding{Sig: fmt.Sprintf("Reader accepts a stream the reference rejects: %s", cls),
			What: fmt.Sprintf("%v; %s conc=%d base=%s mutation=%s stream=%x", err, path, k.Read.Conc, k.Base, k.Mut, truncHex(k.bytes())), Case: k.frozen()}
	}
	if !bytes.Equal(p.Content, res.out) {
		return &ev.Finding{Sig: fmt.Sprintf("Reader accepts a stream but delivers other bytes than the reference; %s conc>1=%v", path, k.Read.Conc > 1),
			What: fmt.Sprintf("%s; base=%s mutation=%s", describeDiff(res.out, p.Content), k.Base, k.Mut), Case: k.frozen()}
	}
	return nil
}

func truncHex(b []byte) []byte {
	if len(b) > 200 {
		return b[:200]
	}
	return b
}

type mutEmit func(desc string, m []byte)

func structuralBytes(fr []byte) []int {
	p, _ := ref.Parse(fr, c05Lenient)
	var idx []int
	if p == nil {
		return nil
	}
	for _, f := range p.Fields {
		if f.Kind == "bdata" || f.Kind == "skip-data" {
			// block payload: the token and offset bytes matter; take the first 12 bytes
			for i := 0; i < f.Len && i < 12; i++ {
				idx = append(idx, f.Off+i)
			}
			continue
		}
		for i := 0; i < f.Len; i++ {
			idx = append(idx, f.Off+i)
		}
	}
	return idx
}

func enumMutations(b *baseFrame, all []baseFrame, thorough bool, emit mutEmit) {
	fr := b.Frame
	m := make([]byte, len(fr))
	limit := len(fr)
	stride := 1
	if len(fr) > 600 {
		stride = 37 // large Writer frames: structural bytes are covered below, payload bits are strided
	}
	if len(fr) > 8192 {
		stride = 1009
	}
	for bit := 0; bit < limit*8; bit += stride {
		copy(m, fr)
		m[bit/8] ^= 1 << uint(bit%8)
		emit(fmt.Sprintf("flip bit %d", bit), m)
	}
	// truncations: the tail fields deleted (every prefix of short frames, field boundaries of long ones)
	if len(fr) <= 600 {
		for n := 1; n < len(fr); n++ {
			emit(fmt.Sprintf("truncate to %d", n), fr[:n])
		}
	} else if p0, _ := ref.Parse(fr, c05Lenient); p0 != nil {
		for _, f := range p0.Fields {
			if f.Off > 0 {
				emit(fmt.Sprintf("truncate to %d", f.Off), fr[:f.Off])
			}
		}
	}
	// whole-field substitutions: a field replaced by all zeros / all ones
	if p0, _ := ref.Parse(fr, c05Lenient); p0 != nil {
		for _, f := range p0.Fields {
			if f.Kind == "bdata" || f.Kind == "skip-data" || f.Len == 0 {
				continue
			}
			for _, v := range []byte{0x00, 0xFF} {
				copy(m, fr)
				same := true
				for i := 0; i < f.Len; i++ {
					if m[f.Off+i] != v {
						same = false
					}
					m[f.Off+i] = v
				}
				if !same {
					emit(fmt.Sprintf("field %s at %d := all %#x", f.Kind, f.Off, v), m)
				}
			}
		}
	}
	sb := structuralBytes(fr)
	for _, i := range sb {
		for _, v := range []byte{0, 1, 0x7F, 0x80, 0xFF, fr[i] + 1, fr[i] - 1} {
			if v == fr[i] {
				continue
			}
			copy(m, fr)
			m[i] = v
			emit(fmt.Sprintf("byte %d := %#x", i, v), m)
		}
	}
	if thorough && len(sb) <= 80 {
		for a := 0; a < len(sb)*8; a++ {
			for c := a + 1; c < len(sb)*8; c++ {
				copy(m, fr)
				m[sb[a/8]] ^= 1 << uint(a%8)
				m[sb[c/8]] ^= 1 << uint(c%8)
				emit(fmt.Sprintf("flip structural bits %d,%d", a, c), m)
			}
		}
	}
	// block-level edits
	p, err := ref.Parse(fr, c05Lenient)
	if err != nil || p.Legacy && len(p.Blocks) == 0 {
		return
	}
	type span struct{ a, b int }
	var blocks []span
	for _, bi := range p.Blocks {
		end := bi.Off + 4 + bi.Stored
		if bi.HasSum {
			end += 4
		}
		blocks = append(blocks, span{bi.Off, end})
	}
	// a block size word replaced by the number of bytes decoded (or consumed) so far: the value the
	// legacy kernel-trailer rule compares with
	for i, bi := range p.Blocks {
		for _, v := range []int{sumDecoded(p, i), bi.Off, sumDecoded(p, i+1)} {
			if v <= 0 {
				continue
			}
			for _, hi := range []byte{fr[bi.Off+3] & 0x80, 0} {
				mm := append([]byte{}, fr...)
				mm[bi.Off], mm[bi.Off+1], mm[bi.Off+2], mm[bi.Off+3] = byte(v), byte(v>>8), byte(v>>16), byte(v>>24)&0x7F|hi
				emit(fmt.Sprintf("block %d size := %d", i, v), mm)
			}
		}
	}
	for i, s := range blocks {
		del := append(append([]byte{}, fr[:s.a]...), fr[s.b:]...)
		emit(fmt.Sprintf("delete block %d", i), del)
		dup := append(append(append([]byte{}, fr[:s.b]...), fr[s.a:s.b]...), fr[s.b:]...)
		emit(fmt.Sprintf("duplicate block %d", i), dup)
		for j := i + 1; j < len(blocks); j++ {
			t := blocks[j]
			sw := append([]byte{}, fr[:s.a]...)
			sw = append(sw, fr[t.a:t.b]...)
			sw = append(sw, fr[s.b:t.a]...)
			sw = append(sw, fr[s.a:s.b]...)
			sw = append(sw, fr[t.b:]...)
			emit(fmt.Sprintf("swap blocks %d,%d", i, j), sw)
		}
	}
	// splices: head of this frame up to a block boundary + tail of another frame with equal flags
	for oi := range all {
		o := &all[oi]
		if o == b || o.Legacy != b.Legacy || len(o.Frame) > 600 || len(fr) > 600 {
			continue
		}
		q, err := ref.Parse(o.Frame, c05Lenient)
		if err != nil || q.BlockSum != p.BlockSum || q.ContentSum != p.ContentSum || q.HasSize != p.HasSize || q.Indep != p.Indep || q.Skipped != p.Skipped {
			continue
		}
		for _, s := range blocks {
			for _, t := range q.Blocks {
				sp := append(append([]byte{}, fr[:s.a]...), o.Frame[t.Off:]...)
				emit(fmt.Sprintf("splice at %d with %s from %d", s.a, o.Name, t.Off), sp)
			}
		}
	}
}

func c05Run(c *ev.Ctx) {
	bases := baseFrames(c.Thorough())
	cfgs := readCfgs()
	for bi := range bases {
		b := &bases[bi]
		if bi%23 == 0 {
			c.Sample(map[string]interface{}{"base": b.Name, "frame_hex": hex.EncodeToString(truncHex(b.Frame))})
		}
		enumMutations(b, bases, c.Thorough(), func(desc string, m []byte) {
			if !c.Next() {
				return
			}
			c.Add("mutants", 1)
			for _, rc := range cfgs {
				k := &streamCase{Fam: "mutant", Base: b.Name, Mut: desc, Read: rc, stream: m}
				c.Eval(1)
				c.Distinct(1)
				if f := c05Check(k, b); f != nil {
					kk := k.frozen()
					c.ConfirmFree(f, rc.Conc > 1, func() *ev.Finding { k2 := kk; return c05Check(&k2, b) })
				}
			}
		})
	}
	c.Add("base_frames", int64(len(bases)))
	c.Add("cases_skipped_after_confirmed_hang", hungSkipped)
	c.Add("slow_calls_over_30s", slowCalls)
	c.Flag("exhaustive", hungSkipped == 0)
}

// ---- C06 ---------------------------------------------------------------------------------------

func c06Check(k *streamCase, full []byte, content []byte, legacy bool) *ev.Finding {
	cut := len(k.bytes())
	res := decodeStream(k.bytes(), k.Read, 1<<22)
	path := "Read"
	if k.Read.WriteTo {
		path = "WriteTo"
	}
	if res.panic != "" || res.err == errSkippedHung {
		return nil // C07
	}
	if res.err == errBlocked {
		return &ev.Finding{Sig: fmt.Sprintf("Reader blocks forever on a truncated frame; conc>1=%v", k.Read.Conc > 1), What: fmt.Sprintf("base=%s cut=%d", k.Base, cut), Case: k.frozen()}
	}
	p, _ := ref.Parse(full, c05Lenient)
	where := "?"
	if p != nil {
		for _, f := range p.Fields {
			if cut >= f.Off && cut < f.Off+f.Len {
				where = fmt.Sprintf("inside %s (%d of %d bytes present)", f.Kind, cut-f.Off, f.Len)
				if cut == f.Off {
					where = fmt.Sprintf("right before %s", f.Kind)
				}
			}
		}
	}
	if res.clean {
		if p != nil && p.Skipped > 0 && len(res.out) == 0 {
			for _, f := range p.Fields {
				if f.Kind == "magic" && cut == f.Off {
					return nil // only complete skippable frames remain: a valid (empty) stream
				}
			}
		}
		if legacy && p != nil {
			// a cut exactly on a block boundary is a complete legacy stream
			var acc []byte
			ok := cut == 4
			for _, f := range p.Fields {
				// right after the magic of a concatenated legacy frame: the stream so far is complete
				// (an empty legacy frame follows the previous one)
				if f.Kind == "magic" && cut == f.Off+f.Len {
					ok = true
					acc = content[:decodedBefore(p, f.Off)]
				}
			}
			if ok && cut != 4 {
				if !bytes.Equal(res.out, acc) {
					return &ev.Finding{Sig: "legacy stream cut on a frame boundary delivers other bytes than the complete blocks; " + path, What: where, Case: k.frozen()}
				}
				return nil
			}
			for i, bl := range p.Blocks {
				end := bl.Off + 4 + bl.Stored
				acc = content[:sumDecoded(p, i+1)]
				if cut == end {
					ok = true
					break
				}
			}
			if cut == 4 {
				acc = nil
			}
			if ok {
				if !bytes.Equal(res.out, acc) {
					return &ev.Finding{Sig: "legacy stream cut on a block boundary delivers other bytes than the complete blocks; " + path, What: where, Case: k.frozen()}
				}
				return nil
			}
		}
		return &ev.Finding{Sig: fmt.Sprintf("truncated frame is presented as complete: cut %s; legacy=%v %s conc>1=%v", where, legacy, path, k.Read.Conc > 1),
			What: fmt.Sprintf("base=%s cut=%d of %d", k.Base, cut, len(full)), Case: k.frozen()}
	}
	if !bytes.HasPrefix(content, res.out) {
		return &ev.Finding{Sig: fmt.Sprintf("bytes delivered before the truncation error are not a prefix of the content; legacy=%v %s conc>1=%v", legacy, path, k.Read.Conc > 1),
			What: fmt.Sprintf("base=%s cut=%d %s; %s", k.Base, cut, where, describeDiff(res.out, content)), Case: k.frozen()}
	}
	return nil
}

// decodedBefore is the number of content bytes of the blocks stored before byte offset off.
func decodedBefore(p *ref.Parsed, off int) int {
	t := 0
	for _, b := range p.Blocks {
		if b.Off < off {
			t += b.Decoded
		}
	}
	return t
}

func sumDecoded(p *ref.Parsed, n int) int {
	t := 0
	for i := 0; i < n && i < len(p.Blocks); i++ {
		t += p.Blocks[i].Decoded
	}
	return t
}

func c06Run(c *ev.Ctx) {
	bases := baseFrames(c.Thorough())
	cfgs := readCfgs()
	for bi := range bases {
		b := &bases[bi]
		fr := b.Frame
		cuts := map[int]bool{}
		if len(fr) <= 4096 {
			for i := 1; i < len(fr); i++ {
				cuts[i] = true
			}
		} else {
			c.Flag("exhaustive_large_frames", false)
			if p, _ := ref.Parse(fr, c05Lenient); p != nil {
				for _, f := range p.Fields {
					for d := -3; d <= 3; d++ {
						for _, e := range []int{f.Off + d, f.Off + f.Len + d} {
							if e >= 1 && e < len(fr) {
								cuts[e] = true
							}
						}
					}
				}
			}
			for i := 1; i < len(fr); i += 61 {
				cuts[i] = true
			}
		}
		for cut := 1; cut < len(fr); cut++ {
			if !cuts[cut] || !c.Next() {
				continue
			}
			c.Add("prefixes", 1)
			for _, rc := range cfgs {
				k := &streamCase{Fam: "prefix", Base: b.Name, Mut: fmt.Sprint("cut ", cut), Read: rc, stream: fr[:cut]}
				c.Eval(1)
				c.Distinct(1)
				if f := c06Check(k, fr, b.Content, b.Legacy); f != nil {
					kk := k.frozen()
					c.ConfirmFree(f, rc.Conc > 1, func() *ev.Finding { k2 := kk; return c06Check(&k2, fr, b.Content, b.Legacy) })
				}
			}
		}
		if bi%29 == 0 {
			c.Sample(map[string]interface{}{"base": b.Name, "frame_len": len(fr), "prefixes": len(cuts)})
		}
	}
	c.Add("base_frames", int64(len(bases)))
	c.Add("cases_skipped_after_confirmed_hang", hungSkipped)
	c.Flag("exhaustive", hungSkipped == 0)
}

// ---- C07 ---------------------------------------------------------------------------------------

func c07Check(k *streamCase, wantInvalid bool, skipCheck int, allocBound int64) *ev.Finding {
	var before runtime.MemStats
	if allocBound > 0 {
		runtime.ReadMemStats(&before)
	}
	res := decodeStream(k.bytes(), k.Read, 64<<20)
	if res.err == errSkippedHung {
		return nil
	}
	path := "Read"
	if k.Read.WriteTo {
		path = "WriteTo"
	}
	mk := func(sig, what string) *ev.Finding {
		return &ev.Finding{Sig: sig, What: fmt.Sprintf("%s; fam=%s %s stream=%x", what, k.Fam, k.Mut, truncHex(k.bytes())), Case: k.frozen()}
	}
	if res.panic != "" {
		cls := res.panic
		if len(cls) > 60 {
			cls = cls[:60]
		}
		return mk(fmt.Sprintf("Reader panics: %s; %s conc>1=%v", cls, path, k.Read.Conc > 1), res.panic)
	}
	if allocBound > 0 {
		// judged first: a Reader busy allocating gigabytes may also trip the watchdog
		var after runtime.MemStats
		runtime.ReadMemStats(&after)
		if d := int64(after.TotalAlloc - before.TotalAlloc); d > allocBound {
			return mk(fmt.Sprintf("Reader allocates beyond the declared block maximum; %s conc>1=%v", path, k.Read.Conc > 1), fmt.Sprintf("%d bytes allocated, bound %d", d, allocBound))
		}
	}
	if res.err == errBlocked {
		return mk(fmt.Sprintf("Reader blocks forever; %s conc>1=%v", path, k.Read.Conc > 1), "")
	}
	if res.err != nil && strings.Contains(res.err.Error(), "does not end") {
		return mk(fmt.Sprintf("Reader does not terminate; %s conc>1=%v", path, k.Read.Conc > 1), "")
	}
	if wantInvalid {
		if !errors.Is(res.err, lz4.ErrInvalidFrame) {
			return mk("first word that is not a frame magic is not reported as an invalid frame; "+path, fmt.Sprintf("err=%v", res.err))
		}
	}
	if skipCheck >= 0 {
		// the stream is skippable(n bytes) followed by a valid frame: it must decode cleanly and
		// consume everything
		if !res.clean {
			return mk("skippable frame followed by a valid frame does not decode cleanly; "+path, fmt.Sprintf("err=%v", res.err))
		}
		if res.consumed != len(k.bytes()) {
			return mk("skippable frame: the announced number of bytes is not what gets skipped; "+path, fmt.Sprintf("consumed %d of %d", res.consumed, len(k.bytes())))
		}
	}
	return nil
}

func le32b(v uint32) []byte { return []byte{byte(v), byte(v >> 8), byte(v >> 16), byte(v >> 24)} }

func c07Run(c *ev.Ctx) {
	debug.SetMaxStack(512 << 10) // depth-proportional recursion becomes a crash at small depth
	cfgs := []readCfg{{1, false, 16}, {1, false, 65536}, {Conc: 1, WriteTo: true}, {2, false, 16}, {Conc: 2, WriteTo: true}, {Conc: 4, WriteTo: true}}
	valid, _ := smallFrame(true, true, 2, false)
	run := func(k *streamCase, wantInvalid bool, skipCheck int, allocBound int64) {
		c.Eval(1)
		if len(k.stream) >= 4 {
			c.Distinct(1)
		}
		c.Crumb([]byte(k.Fam), []byte("|"), []byte(k.Mut), []byte("|"), truncHex(k.stream))
		if f := c07Check(k, wantInvalid, skipCheck, allocBound); f != nil {
			kk := k.frozen()
			kk.stream = append([]byte(nil), k.stream...)
			c.ConfirmFree(f, k.Read.Conc > 1, func() *ev.Finding { k2 := kk; return c07Check(&k2, wantInvalid, skipCheck, allocBound) })
		}
	}
	// T1: every byte string of length 0..2 (thorough: 3)
	maxLen := 2
	if c.Thorough() {
		maxLen = 3
	}
	buf := make([]byte, 3)
	for n := 0; n <= maxLen; n++ {
		for v := 0; v < 1<<(8*uint(n)); v++ {
			if !c.Next() {
				continue
			}
			for i := 0; i < n; i++ {
				buf[i] = byte(v >> (8 * uint(i)))
			}
			rc := cfgs[v%len(cfgs)]
			run(&streamCase{Fam: "T1", Read: rc, stream: buf[:n]}, false, -1, 0)
		}
	}
	c.Add("T1_done", 1)
	// T2: first words around the magics
	for x := 0; x < 65536; x++ {
		for _, basew := range []uint32{0x184D0000, 0x184C0000} {
			w := basew | uint32(x)
			isSkip := w >= ref.MagicSkipLo && w <= ref.MagicSkipHi
			isMagic := w == ref.MagicFrame || w == ref.MagicLegacy
			if !c.Next() {
				continue
			}
			rc := cfgs[x%len(cfgs)]
			// (a) nothing follows, (b) a length word and that many bytes, (c) a valid frame
			run(&streamCase{Fam: "T2a", Mut: fmt.Sprintf("%#x", w), Read: rc, stream: le32b(w)}, !isSkip && !isMagic, -1, 0)
			s := append(append(le32b(w), le32b(3)...), 9, 9, 9)
			run(&streamCase{Fam: "T2b", Mut: fmt.Sprintf("%#x", w), Read: rc, stream: s}, !isSkip && !isMagic, -1, 0)
			s2 := append(append(append(le32b(w), le32b(3)...), 9, 9, 9), valid...)
			sk := -1
			if isSkip {
				sk = 3
			}
			run(&streamCase{Fam: "T2c", Mut: fmt.Sprintf("%#x", w), Read: rc, stream: s2}, !isSkip && !isMagic, sk, 0)
		}
	}
	for _, m := range []uint32{ref.MagicFrame, ref.MagicLegacy, ref.MagicSkipLo, ref.MagicSkipHi} {
		for bit := 0; bit < 32; bit++ {
			w := m ^ 1<<uint(bit)
			isSkip := w >= ref.MagicSkipLo && w <= ref.MagicSkipHi
			isMagic := w == ref.MagicFrame || w == ref.MagicLegacy
			if !c.Next() {
				continue
			}
			s := append(le32b(w), valid...)
			run(&streamCase{Fam: "T2flip", Mut: fmt.Sprintf("%#x", w), Read: cfgs[bit%len(cfgs)], stream: s}, !isSkip && !isMagic, -1, 0)
		}
	}
	// T3: grammar-built hostile frames
	for code := 4; code <= 7; code++ {
		B := ref.BlockMax(code)
		for flags := 0; flags < 8; flags++ {
			hdr := func() []byte {
				flg := byte(0x60)
				if flags&1 != 0 {
					flg |= 0x10
				}
				if flags&2 != 0 {
					flg |= 0x04
				}
				d := []byte{flg, byte(code << 4)}
				if flags&4 != 0 {
					flg |= 0x08
					d[0] = flg
					d = append(d, 0xFF, 0xFF, 0xFF, 0xFF, 0xFF, 0xFF, 0xFF, 0xFF) // content size 2^64-1
				}
				h := append(le32b(ref.MagicFrame), d...)
				return append(h, byte(ref.XXH32(d)>>8))
			}()
			for _, size := range []uint32{0, 1, uint32(B - 1), uint32(B), uint32(B + 1), 0x7FFFFFFF, 0x80000000, 0x80000001, 0xFFFFFFFF, 0x80000000 | uint32(B), 0x80000000 | uint32(B+1)} {
				n := int(size & 0x7FFFFFFF)
				for _, follow := range []int{0, 1, n, n + 1} {
					if follow > B+5 {
						continue
					}
					if !c.Next() {
						continue
					}
					s := append(append([]byte{}, hdr...), le32b(size)...)
					s = append(s, make([]byte, follow)...)
					for _, rc := range cfgs {
						// cold pools: Reader buffer + per block in flight (queue capacity conc, +2 being
						// read/collected) a compressed and an uncompressed buffer
						bound := int64(2*rc.Conc+6)*int64(B) + 4<<20
						run(&streamCase{Fam: "T3block", Mut: fmt.Sprintf("code=%d flags=%d size=%#x follow=%d", code, flags, size, follow), Read: rc, stream: s}, false, -1, bound)
					}
				}
			}
		}
	}
	for _, sl := range []uint32{0, 1, 7, 1 << 31, 1<<32 - 1} {
		for _, follow := range []int{0, 7, 11} {
			if !c.Next() {
				continue
			}
			s := append(le32b(ref.MagicSkipLo+3), le32b(sl)...)
			s = append(s, make([]byte, follow)...)
			for _, rc := range cfgs {
				run(&streamCase{Fam: "T3skip", Mut: fmt.Sprintf("len=%d follow=%d", sl, follow), Read: rc, stream: s}, false, -1, 16<<20)
			}
		}
	}
	// chains of k skippable frames / k legacy magics in front of a valid (legacy) frame
	chains := []int{1, 2, 3, 64, 4096, 65536}
	if c.Thorough() {
		chains = append(chains, 1<<22)
	}
	lf, _ := smallFrame(false, false, 2, true)
	for _, kn := range chains {
		if !c.Next() {
			continue
		}
		var s []byte
		for i := 0; i < kn; i++ {
			s = append(s, le32b(ref.MagicSkipLo+uint32(i%16))...)
			s = append(s, 0, 0, 0, 0)
		}
		s = append(s, valid...)
		for _, rc := range cfgs {
			run(&streamCase{Fam: "T3chain-skip", Gen: fmt.Sprint(kn), Mut: fmt.Sprintf("k=%d", kn), Read: rc, stream: s}, false, 0, 0)
		}
		s = s[:0]
		for i := 0; i < kn; i++ {
			s = append(s, le32b(ref.MagicLegacy)...)
		}
		s = append(s, lf[4:]...)
		for _, rc := range cfgs {
			run(&streamCase{Fam: "T3chain-legacy", Gen: fmt.Sprint(kn), Mut: fmt.Sprintf("k=%d", kn), Read: rc, stream: s}, false, -1, 0)
		}
	}
	// chains of k empty (stored, zero-length) blocks inside a valid frame
	for _, kn := range chains {
		if !c.Next() {
			continue
		}
		d := []byte{0x60, 0x40}
		fr := append(le32b(ref.MagicFrame), d...)
		fr = append(fr, byte(ref.XXH32(d)>>8))
		for i := 0; i < kn; i++ {
			fr = append(fr, 0, 0, 0, 0x80)
		}
		fr = append(fr, 5, 0, 0, 0x80, 'h', 'e', 'l', 'l', 'o', 0, 0, 0, 0)
		for _, rc := range cfgs {
			k := &streamCase{Fam: "T3chain-empty-blocks", Gen: fmt.Sprint(kn), Mut: fmt.Sprintf("k=%d", kn), Read: rc, stream: fr}
			run(k, false, -1, 0)
			res := decodeStream(fr, rc, 1<<20)
			if res.panic == "" && res.err != errBlocked && res.err != errSkippedHung && (!res.clean || string(res.out) != "hello") {
				c.Report(&ev.Finding{Sig: "valid frame with a run of empty blocks is not decoded", What: fmt.Sprintf("k=%d err=%v", kn, res.err), Case: k.frozen()})
			}
		}
	}
	// T5: valid dependent-block frames with blocks above 64 KiB and more than 128 KiB of history
	// (the window-trimming arithmetic of the Reader) must not panic either
	for _, sizes := range [][]int{{65536, 70000, 5}, {100000, 100000, 13}, {65536, 65536, 65536}, {40000, 40000, 40000, 40000, 40000}, {70000, 262144, 100}} {
		for vi := range depVariants {
			if !c.Next() {
				continue
			}
			fr, _, ok := buildDepFrame(depPlan{Sizes: sizes, Variant: vi, Code: 5})
			if !ok {
				continue
			}
			for _, rc := range cfgs {
				run(&streamCase{Fam: "T5dep", Mut: fmt.Sprintf("sizes=%v variant=%d", sizes, vi), Read: rc, stream: fr}, false, -1, 0)
			}
		}
	}
	// T4: the C05 mutants with the termination oracle
	bases := baseFrames(false)
	for bi := range bases {
		b := &bases[bi]
		if len(b.Frame) > 600 {
			continue
		}
		enumMutations(b, bases, false, func(desc string, m []byte) {
			if !c.Next() {
				return
			}
			for _, rc := range []readCfg{cfgs[0], cfgs[2], cfgs[3], cfgs[4]} {
				bmax := int64(4 << 20) // a mutation may raise the block-size code up to 4 MiB
				if b.Legacy {
					bmax = 8 << 20
				}
				run(&streamCase{Fam: "T4", Base: b.Name, Mut: desc, Read: rc, stream: m}, false, -1, int64(2*rc.Conc+6)*bmax+4<<20)
			}
		})
	}
	c.Flag("exhaustive", true)
}

func streamReplay(prop string) func(c *ev.Ctx) {
	return func(c *ev.Ctx) {
		var k streamCase
		if err := json.Unmarshal(c.ReplayRaw, &k); err != nil {
			c.Machinery("bad replay: %v", err)
			return
		}
		if k.Hex == "" && k.Gen == "" {
			c.Machinery("replay case carries no stream")
			return
		}
		var f *ev.Finding
		switch prop {
		case "C05":
			f = c05Check(&k, nil)
		case "C06":
			// the base frame is needed to name the field: rebuild it
			for _, b := range baseFrames(true) {
				if b.Name == k.Base {
					b := b
					f = c06Check(&k, b.Frame, b.Content, b.Legacy)
				}
			}
		case "C07":
			f = c07Check(&k, false, -1, 0)
		}
		if f != nil {
			c.Report(f)
		}
	}
}

func init() {
	baseRule := "base frames: reference-encoder frames with 3 small blocks for every combination of {block checksum, content checksum, content size, block independence} x raw/compressed mixes {ccc,rcc,crc,ccr,rrr,c0c}; Writer-produced frames over the quick option grid on inputs {0,1,100 incompressible,B+1 zeros}; legacy frames; a frame behind a skippable frame. Readers: concurrency {1,2} x {Read 1, Read 7, Read 64K, WriteTo}. "
	ev.Register(&ev.Driver{Prop: "C05", Level: "fault_enumeration",
		Rule:        baseRule + "Mutations enumerated completely per base frame: every single-bit flip (frames > 600 bytes: every 37th payload bit), byte substitution from {0,1,7F,80,FF,+1,-1} at every structural byte, (thorough) every pair of bit flips in structural fields, block delete/duplicate/swap, splices at block boundaries between frames with equal flags. Oracle: whenever the Reader ends cleanly the reference parser accepts exactly the consumed bytes with identical output. Non-trivial = every mutant x reader configuration.",
		Assumptions: []string{"ref.Parse (lenient only on what the statement does not name: version/reserved/dictionary-id bits, decoded block size, content-size value) is the specification"},
		Run:         c05Run, Replay: streamReplay("C05")})
	ev.Register(&ev.Driver{Prop: "C06", Level: "fault_enumeration",
		Rule:        baseRule + "Every prefix length 1..len-1 of every base frame <= 4096 bytes; for longer frames every structural boundary +-3 bytes and every 61st byte. Oracle: the outcome is an error other than a clean end (legacy: clean only on a block boundary) and the delivered bytes are a prefix of the content.",
		Assumptions: []string{"interior cut positions of frames > 4 KiB are strided (reported as exhaustive_large_frames=false)"},
		Run:         c06Run, Replay: streamReplay("C06")})
	ev.Register(&ev.Driver{Prop: "C07", Level: "fault_enumeration",
		Rule:        "T1 every byte string of length 0..2 (thorough 3); T2 every first word 0x184D0000|x and 0x184C0000|x and every single-bit flip of the magics, followed by nothing / a length and data / a valid frame; T3 hostile frames: every block-size code x flags (content size 2^64-1) x block size words {0,1,B-1,B,B+1,0x7FFFFFFF,0x80000000,...} x {0,1,size,size+1} following bytes with an allocation bound, skippable lengths up to 2^32-1, chains of k skippable frames / legacy magics (k up to 65536, thorough 2^22) under a 512 KiB stack limit; T4 every C05 mutant. Oracle: no panic, no worker crash, terminates, allocation within (2 x concurrency + 6) x block maximum + 4 MiB (cold buffer pools), non-magic => ErrInvalidFrame, skippable => exactly the announced bytes skipped.",
		Assumptions: []string{"inputs longer than 3 bytes are structured, not arbitrary", "the memory bound is on allocation volume (TotalAlloc), not RSS"},
		Run:         c07Run, Replay: streamReplay("C07"),
		Crash: func(crumb []byte, tail string) *ev.Finding {
			parts := bytes.SplitN(crumb, []byte{'|'}, 3)
			cls := "fatal error"
			for _, l := range strings.Split(tail, "\n") {
				if strings.HasPrefix(l, "fatal error:") || strings.HasPrefix(l, "runtime: goroutine stack exceeds") {
					cls = strings.TrimSpace(l)
					break
				}
			}
			fam := ""
			if len(parts) > 0 {
				fam = string(parts[0])
			}
			return &ev.Finding{Sig: fmt.Sprintf("Reader crashes the process (%s) on family %s", cls, fam), What: string(crumb[:min(len(crumb), 300)]), Case: map[string]string{"crumb": hex.EncodeToString(crumb[:min(len(crumb), 300)])}}
		}})
}
