package props

import (
	"bytes"
	"encoding/json"
	"fmt"
	"hash/fnv"
	"io"

	lz4 "github.com/pierrec/lz4/v4"

	"verif/harness/ev"
	"verif/harness/ref"
)

// C02 — frame round trip over options x chunking x entry points.
// C09 — every emitted frame is accepted by the reference frame parser (strict).

type c02Case struct {
	Item corpusItem  `json:"item"`
	Read readPattern `json:"read"`
}

func frameKey(b []byte) uint64 {
	h := fnv.New64a()
	h.Write(b)
	return h.Sum64()
}

func reducedMode(o wopts) string {
	if o.Level == 0 {
		return "all"
	}
	return "few"
}

func c02ReadCheck(it corpusItem, input, frame []byte, p readPattern) *ev.Finding {
	res := readBack(bytes.NewReader(frame), p, len(input)+1<<20)
	if res.skipped {
		return nil
	}
	k := c02Case{it, p}
	path := "Read"
	if p.WriteTo {
		path = "WriteTo"
	}
	cls := fmt.Sprintf("legacy=%v conc>1=%v", it.Opts.Legacy, p.Conc > 1)
	if res.panic != "" {
		return &ev.Finding{Sig: "Reader panics on a frame the Writer emitted; " + path + " " + cls, What: res.panic + " " + it.Opts.String(), Case: k}
	}
	if !res.clean {
		return &ev.Finding{Sig: "Reader fails on a frame the Writer emitted; " + path + " " + cls + " err=" + errClass(res.err), What: fmt.Sprintf("%v; %s input=%+v delivery=%+v", res.err, it.Opts, it.In, it.Deliv), Case: k}
	}
	if !bytes.Equal(res.out, input) {
		return &ev.Finding{Sig: "round trip output differs from the input; " + path + " " + cls, What: fmt.Sprintf("%s; %s input=%+v delivery=%+v read=%+v", describeDiff(res.out, input), it.Opts, it.In, it.Deliv, p), Case: k}
	}
	return nil
}

func c02Run(c *ev.Ctx) {
	seen := map[uint64]bool{}
	reusedReaders := map[int]*lz4.Reader{}
	emit := func(it corpusItem, input, frame []byte, err error) {
		c.Eval(1)
		if err != nil {
			f := &ev.Finding{Sig: fmt.Sprintf("Writer fails: %s; legacy=%v conc>1=%v", errShort(err), it.Opts.Legacy, it.Opts.Conc != 1), What: fmt.Sprintf("%v; %s input=%+v delivery=%+v", err, it.Opts, it.In, it.Deliv), Case: c02Case{Item: it}}
			c.ConfirmFree(f, it.Opts.Conc != 1, func() *ev.Finding {
				_, e2 := produceFrame(it.Opts, it.In.build(), it.Deliv)
				if e2 != nil {
					return &ev.Finding{Sig: f.Sig}
				}
				return nil
			})
			return
		}
		key := frameKey(frame)
		if seen[key] {
			c.Add("frames_identical_to_an_earlier_one", 1)
			return
		}
		seen[key] = true
		c.Add("distinct_frames", 1)
		if len(seen)%97 == 1 {
			c.Sample(it)
		}
		// one long-lived Reader per concurrency level reads every distinct frame through Reset, so
		// each frame follows frames of other block sizes, formats and flags
		for _, conc := range []int{1, 2} {
			if it.In.Len > 1<<20 {
				break
			}
			r := reusedReaders[conc]
			var out bytes.Buffer
			var rerr error
			pmsg := ""
			func() {
				defer func() {
					if x := recover(); x != nil {
						pmsg = fmt.Sprint(x)
					}
				}()
				if r == nil {
					r = lz4.NewReader(bytes.NewReader(frame))
					r.Apply(lz4.ConcurrencyOption(conc))
					reusedReaders[conc] = r
				} else {
					r.Reset(bytes.NewReader(frame))
				}
				if len(seen)%2 == 0 {
					_, rerr = r.WriteTo(&out)
				} else {
					_, rerr = io.Copy(&out, struct{ io.Reader }{r})
				}
			}()
			c.Eval(1)
			c.Add("reused_reader_decodes", 1)
			if pmsg != "" || rerr != nil || !bytes.Equal(out.Bytes(), input) {
				delete(reusedReaders, conc)
				c.Report(&ev.Finding{Sig: fmt.Sprintf("a Reader reused through Reset does not decode a frame that a new Reader decodes (legacy=%v conc>1=%v)", it.Opts.Legacy, conc > 1),
					What: fmt.Sprintf("panic=%q err=%v %s; %s input=%+v", pmsg, rerr, describeDiff(out.Bytes(), input), it.Opts, it.In), Case: c02Case{Item: it}})
			}
		}
		small := it.In.Len <= it.Opts.blockLen()+1
		for _, p := range readPatterns(it.Opts.blockLen(), small) {
			if it.Opts.Legacy && !p.WriteTo && p.Sizes[0] > 1<<20 && it.In.Len < 1000 && p.Sizes[0] != p.Sizes[1] {
				continue
			}
			c.Eval(1)
			if it.In.Len > 0 {
				c.Distinct(1)
			}
			if f := c02ReadCheck(it, input, frame, p); f != nil {
				pp := p
				c.ConfirmFree(f, pp.Conc > 1 || it.Opts.Conc != 1, func() *ev.Finding {
					in := it.In.build()
					fr, e := produceFrame(it.Opts, in, it.Deliv)
					if e != nil {
						return nil
					}
					return c02ReadCheck(it, in, fr, pp)
				})
				break
			}
		}
	}
	for _, o := range optionGrid(c.Thorough()) {
		for _, in := range inputsFor(o.BS, c.Thorough(), o.Legacy) {
			if !c.Next() {
				continue
			}
			input := in.build()
			mode := reducedMode(o)
			if in.Content == "rep65536" {
				mode = "few"
			}
			for _, d := range deliveriesFor(in.Len, o.blockLen(), mode, c.Thorough()) {
				it := corpusItem{o, in, d}
				frame, err := produceFrame(o, input, d)
				emit(it, input, frame, err)
			}
		}
	}
	c.Flag("exhaustive", true)
}

func errShort(err error) string {
	s := err.Error()
	if len(s) > 60 {
		s = s[:60]
	}
	return s
}

// ---- C09 -------------------------------------------------------------------------------------

func bsCode(bs int) int {
	switch bs {
	case 65536:
		return 4
	case 262144:
		return 5
	case 1 << 20:
		return 6
	case 4 << 20:
		return 7
	}
	return 0
}

// conformance checks one emitted frame against the strict reference parser and the options.
func conformance(o wopts, input, frame []byte, who string) (sig, what string) {
	return conformanceOpts(o, input, frame, who, ref.Opts{})
}

func conformanceOpts(o wopts, input, frame []byte, who string, ro ref.Opts) (sig, what string) {
	p, err := ref.Parse(frame, ro)
	if err != nil {
		cls := err.Error()
		// normal form: strip the offset
		if i := bytes.LastIndex([]byte(cls), []byte(" at offset")); i > 0 {
			cls = cls[:i]
		}
		return fmt.Sprintf("%s emits a frame the reference parser rejects: %s; legacy=%v", who, cls, o.Legacy), err.Error()
	}
	if !bytes.Equal(p.Content, input) {
		return who + " frame decodes (reference) to something else than the input", describeDiff(p.Content, input)
	}
	if o.Legacy {
		if !p.Legacy {
			return who + " legacy option does not produce a legacy frame", ""
		}
		return "", ""
	}
	if p.Legacy {
		return who + " produced a legacy frame without the legacy option", ""
	}
	switch {
	case p.BSCode != bsCode(o.BS):
		return who + " frame declares another block maximum than configured", fmt.Sprintf("code %d for %d", p.BSCode, o.BS)
	case p.BlockSum != o.BSum:
		return who + " frame's block-checksum flag differs from the option", ""
	case p.ContentSum != o.CSum:
		return who + " frame's content-checksum flag differs from the option", ""
	case p.HasSize != (o.Size && len(input) > 0):
		return who + " frame's content-size flag differs from the option", fmt.Sprintf("flag %v option %v len %d", p.HasSize, o.Size, len(input))
	case p.HasSize && p.ContentSize != uint64(len(input)):
		return who + " frame's content size differs from the configured one", fmt.Sprintf("%d vs %d", p.ContentSize, len(input))
	case !p.Indep:
		return who + " frame is marked block-dependent", ""
	}
	for _, b := range p.Blocks {
		if b.Decoded > o.BS {
			return who + " frame has a block decoding to more than the block maximum", ""
		}
	}
	return "", ""
}

// conformanceDeliv: a Flush requested by the caller necessarily ends the current block early,
// so for legacy frames delivered with Flush the "every block but the last holds 8 MiB" rule is
// not applied (the reference decoder accepts short blocks anywhere).
func conformanceDeliv(it corpusItem, input, frame []byte) (string, string) {
	ro := ref.Opts{}
	if it.Opts.Legacy && it.Deliv.Flush != 0 {
		ro.LegacyLoose = true
	}
	return conformanceOpts(it.Opts, input, frame, "Writer", ro)
}

func c09Run(c *ev.Ctx) {
	seen := map[uint64]bool{}
	for _, o := range optionGrid(c.Thorough()) {
		ins := inputsFor(o.BS, c.Thorough(), o.Legacy)
		if o.Legacy && c.Thorough() {
			ins = append(ins, inputSpec{8 << 20, "lcg"})
		}
		for _, in := range ins {
			if !c.Next() {
				continue
			}
			input := in.build()
			mode := "few"
			if o.Level == 0 && o.Conc == 1 && in.Content != "rep65536" {
				mode = "all"
			}
			for _, d := range deliveriesFor(in.Len, o.blockLen(), mode, c.Thorough()) {
				it := corpusItem{o, in, d}
				frame, err := produceFrame(o, input, d)
				c.Eval(1)
				if err != nil {
					continue // C02 reports Writer failures
				}
				key := frameKey(frame)
				if seen[key] {
					continue
				}
				seen[key] = true
				c.Add("distinct_frames", 1)
				if in.Len > 0 {
					c.Distinct(1)
				}
				if len(seen)%89 == 1 {
					c.Sample(it)
				}
				if sig, what := conformanceDeliv(it, input, frame); sig != "" {
					f := &ev.Finding{Sig: sig, What: fmt.Sprintf("%s; %s input=%+v delivery=%+v", what, o, in, d), Case: c02Case{Item: it}}
					c.ConfirmFree(f, it.Opts.Conc != 1, func() *ev.Finding {
						inp := it.In.build()
						fr, e := produceFrame(it.Opts, inp, it.Deliv)
						if e != nil {
							return nil
						}
						if s2, _ := conformanceDeliv(it, inp, fr); s2 != "" {
							return &ev.Finding{Sig: s2}
						}
						return nil
					})
				}
			}
		}
	}
	c09CompressingReader(c)
	c09ReusedWriter(c)
	c.Flag("exhaustive", true)
}

// c09ReusedWriter: the same grid through ONE long-lived Writer per option-concurrency class that
// is Reset and re-configured for every item (so each frame follows frames of other formats and
// options); every frame must pass the same conformance oracle and equal the fresh Writer's frame.
// c09OptionChange: one Writer, a frame with block size A (closed, or abandoned after a Write), then
// Reset + Apply(block size B, other options) and a frame that is longer than both block sizes: the
// second frame must conform and equal a new Writer's.
func c09OptionChange(c *ev.Ctx) {
	sizes := []int{65536, 262144, 1 << 20, 4 << 20}
	input := inputSpec{300000, "p7"}.build()
	n := 0
	for _, a := range sizes {
		for _, b := range sizes {
			for _, abandon := range []bool{false, true} {
				for _, conc := range []int{1, 2} {
					n++
					if !c.Mine(int64(n)) {
						continue
					}
					oa := wopts{BS: a, CSum: true, Conc: conc}
					ob := wopts{BS: b, CSum: true, BSum: n%2 == 0, Conc: conc}
					var got []byte
					var err error
					func() {
						defer func() {
							if r := recover(); r != nil {
								err = fmt.Errorf("panic: %v", r)
							}
						}()
						w := lz4.NewWriter(&countSink{limit: 4*len(input) + 1<<20})
						if err = w.Apply(oa.options(len(input))...); err != nil {
							return
						}
						w.Write(input[:100000])
						if !abandon {
							w.Close()
						}
						sink := &countSink{limit: 4*len(input) + 1<<20}
						w.Reset(sink)
						if err = w.Apply(ob.options(len(input))...); err != nil {
							return
						}
						if _, err = w.Write(input); err != nil {
							return
						}
						err = w.Close()
						got = sink.buf.Bytes()
					}()
					c.Eval(1)
					c.Distinct(1)
					c.Add("option_change_frames", 1)
					it := corpusItem{ob, inputSpec{300000, "p7"}, delivery{Kind: "write"}}
					what := fmt.Sprintf("first frame bs=%d abandoned=%v, second %s", a, abandon, ob)
					if err != nil {
						c.Report(&ev.Finding{Sig: fmt.Sprintf("reused Writer fails after a block-size change (abandoned=%v): %s", abandon, errShort(err)), What: what, Case: c02Case{Item: it}})
						continue
					}
					if sig, w2 := conformance(ob, input, got, "reused Writer"); sig != "" {
						c.Report(&ev.Finding{Sig: sig + " (after a block-size change)", What: w2 + "; " + what, Case: c02Case{Item: it}})
						continue
					}
					if fresh, ferr := produceFrame(ob, input, delivery{Kind: "write"}); ferr == nil && !bytes.Equal(fresh, got) {
						c.Report(&ev.Finding{Sig: fmt.Sprintf("a Writer reused through Reset emits other bytes than a new Writer with the same options (block-size change, abandoned=%v)", abandon), What: describeDiff(got, fresh) + "; " + what, Case: c02Case{Item: it}})
					}
				}
			}
		}
	}
}

func c09ReusedWriter(c *ev.Ctx) {
	c09OptionChange(c)
	ws := map[int]*lz4.Writer{}
	grid := optionGrid(c.Thorough())
	// visit the grid in an order that alternates formats and flags
	order := make([]int, 0, len(grid))
	for i := 0; i < len(grid); i++ {
		order = append(order, (i*37)%len(grid))
	}
	seenIdx := map[int]bool{}
	for n, gi := range order {
		if seenIdx[gi] {
			continue
		}
		seenIdx[gi] = true
		o := grid[gi]
		if !c.Mine(int64(n%4)) && c.NShards > 1 {
			// few shards take part: the point is the long history of one Writer
			if c.Shard >= 4 {
				return
			}
		}
		for _, in := range inputsFor(o.BS, false, o.Legacy) {
			if in.Len > 200000 {
				continue
			}
			input := in.build()
			w := ws[o.Conc]
			sink := &countSink{limit: 4*len(input) + 1<<20}
			var err error
			func() {
				defer func() {
					if r := recover(); r != nil {
						err = fmt.Errorf("panic: %v", r)
					}
				}()
				if w == nil {
					w = lz4.NewWriter(sink)
					ws[o.Conc] = w
				} else {
					if n%3 == 1 {
						// abandon a frame first: data written, no Close, then Reset (pending data is dropped)
						junk := &countSink{limit: 4*len(input) + 1<<20}
						w.Reset(junk)
						w.Write(input[:len(input)/2])
					}
					w.Reset(sink)
				}
				if err = w.Apply(o.options(len(input))...); err != nil {
					return
				}
				if !o.Size {
					if err = w.Apply(lz4.SizeOption(0)); err != nil {
						return
					}
				}
				if _, err = w.Write(input); err != nil {
					return
				}
				err = w.Close()
			}()
			c.Eval(1)
			c.Add("reused_writer_frames", 1)
			it := corpusItem{o, in, delivery{Kind: "write"}}
			if err != nil {
				c.Report(&ev.Finding{Sig: "reused Writer fails after Reset+Apply: " + errShort(err), What: fmt.Sprintf("%s input=%+v", o, in), Case: c02Case{Item: it}})
				delete(ws, o.Conc)
				continue
			}
			if in.Len > 0 {
				c.Distinct(1)
			}
			if sig, what := conformance(o, input, sink.buf.Bytes(), "reused Writer"); sig != "" {
				c.Report(&ev.Finding{Sig: sig, What: fmt.Sprintf("%s; %s input=%+v (frame %d of this Writer)", what, o, in, n), Case: c02Case{Item: it}})
				continue
			}
			fresh, ferr := produceFrame(o, input, delivery{Kind: "write"})
			if ferr == nil && !bytes.Equal(fresh, sink.buf.Bytes()) {
				c.Report(&ev.Finding{Sig: "a Writer reused through Reset emits other bytes than a new Writer with the same options", What: fmt.Sprintf("%s; %s input=%+v", describeDiff(sink.buf.Bytes(), fresh), o, in), Case: c02Case{Item: it}})
			}
		}
	}
}

func init() {
	rule := "grid enumeration: option grid (full product over {64K} x block checksum x content checksum x size x {Fast,L1,L9} (thorough: all levels) x concurrency {1,2} (thorough {1,2,4,GOMAXPROCS}) plus a covering set for the other block sizes/levels/concurrency and legacy) x inputs relative to the block size B (0,1,B-1,B,B+1,2B,2B+1,3B-1; zeros, period-7, incompressible; crafted inputs whose XXH32 is 0) x deliveries (every subset of the cut points {1,B-1,B,B+1,2B-1,2B,n-1} as Write calls, Flush after every subset of <=3 cuts, interleaved empty writes, ReadFrom under 49 source fragmentation patterns; non-Fast levels: a reduced delivery set). "
	ev.Register(&ev.Driver{
		Prop: "C02", Level: "exploration",
		Rule: rule + "Every distinct frame is decoded under every read-back pattern: Reader concurrency {1,2,4} x {WriteTo, Read with buffer-size cycles of length <=2 over {1,7,B-1,B,B+1,2B,16MiB}}. evaluations = frames produced + decodes; distinct_nontrivial = decodes of distinct frames with non-empty content.",
		Assumptions: []string{"concurrent Writers/Readers run free here (one schedule each); the schedule axis is decided in C08/C14 under the controlled scheduler",
			"inputs are the listed lengths/contents only"},
		Run: c02Run,
		Replay: func(c *ev.Ctx) {
			var k c02Case
			if err := json.Unmarshal(c.ReplayRaw, &k); err != nil {
				c.Machinery("bad replay: %v", err)
				return
			}
			in := k.Item.In.build()
			fr, err := produceFrame(k.Item.Opts, in, k.Item.Deliv)
			if err != nil {
				c.Report(&ev.Finding{Sig: "Writer fails: " + errShort(err), Case: k})
				return
			}
			if k.Read.Conc == 0 {
				return
			}
			if f := c02ReadCheck(k.Item, in, fr, k.Read); f != nil {
				c.Report(f)
			}
		},
	})
	ev.Register(&ev.Driver{
		Prop: "C09", Level: "exploration",
		Rule:        rule + "Every distinct frame, and every stream of the compressing reader over the C18 inputs/options, is parsed by the strict reference parser (magic, version 01, reserved bits, header checksum, block sizes <= maximum, block checksums over the stored bytes, end mark, content checksum, content size; legacy: plain size-prefixed blocks of 8 MiB content) and its flags are compared with the options. distinct_nontrivial = distinct frames with non-empty content.",
		Assumptions: []string{"ref.Parse/ref.Decode/ref.XXH32 are the specification (cross-checked against the repository's golden files in setup)"},
		Run:         c09Run,
		Replay: func(c *ev.Ctx) {
			var k c02Case
			if err := json.Unmarshal(c.ReplayRaw, &k); err != nil {
				c.Machinery("bad replay: %v", err)
				return
			}
			in := k.Item.In.build()
			fr, err := produceFrame(k.Item.Opts, in, k.Item.Deliv)
			if err != nil {
				return
			}
			if sig, what := conformanceDeliv(k.Item, in, fr); sig != "" {
				c.Report(&ev.Finding{Sig: sig, What: what, Case: k})
			}
		},
	})
}

var _ = io.EOF
