package props

import (
	"encoding/json"
	"fmt"
	"io"

	lz4 "github.com/pierrec/lz4/v4"

	"verif/harness/ev"
	"verif/harness/ref"
)

// C13 — XXH32 equals the reference for every input, chunking and length.
// Explicit-state search over call histories of the real streaming hasher (Write(k), Sum32,
// Reset), from the initial state and from injected states just below 2^32, with the
// reference hasher run in lock-step.

type c13Op struct {
	Op string `json:"op"` // w | sum | reset
	N  int    `json:"n,omitempty"`
}

type c13Case struct {
	Kind    string  `json:"kind"`            // hist | oneshot | big
	Start   string  `json:"start,omitempty"` // zero | reset | near32
	Pattern string  `json:"pattern,omitempty"`
	Ops     []c13Op `json:"ops,omitempty"`
	Len     int     `json:"len,omitempty"`
	Bits    int     `json:"bits,omitempty"` // oneshot over {00,FF}: the string's bits
	K       int     `json:"k,omitempty"`
}

var c13Lens = []int{0, 1, 2, 3, 4, 5, 6, 7, 8, 9, 10, 11, 12, 13, 14, 15, 16, 17, 31, 32, 33, 47, 48, 49, 64, 100}

func c13Byte(pattern string, pos uint64) byte {
	if pattern == "ctr" {
		return byte(pos*7 + 1)
	}
	x := pos*6364136223846793005 + 1442695040888963407
	x ^= x >> 29
	return byte(x >> 17)
}

type c13Node struct {
	real lz4.VerifXXH
	ref  ref.XXH
	pos  uint64 // stream position (for data generation)
	cat  []byte // concatenation since the last reset, nil when started from an injected state
	inj  bool
}

func (n *c13Node) clone() *c13Node {
	m := *n
	m.ref.Tail = append([]byte(nil), n.ref.Tail...)
	if n.cat != nil {
		m.cat = append(make([]byte, 0, len(n.cat)+128), n.cat...)
	}
	return &m
}

var (
	near32Real *lz4.VerifXXH
	near32Ref  *ref.XXH
)

func c13Start(start string) *c13Node {
	n := &c13Node{}
	n.ref.Reset()
	switch start {
	case "zero": // zero value, as embedded in lz4stream.Frame before Reset
		n.cat = []byte{}
	case "reset":
		n.real.Reset()
		n.cat = []byte{}
	case "near32":
		// a real stream of 2^32-64 bytes (no dependence on the hasher's private layout), hashed
		// once per worker process and copied for every history
		if near32Real == nil {
			chunk := make([]byte, 1<<20)
			for i := range chunk {
				chunk[i] = c13Byte("lcg", uint64(i))
			}
			var r lz4.VerifXXH
			r.Reset()
			f := ref.NewXXH()
			for i := 0; i < 4095; i++ {
				r.Write(chunk)
				f.WriteStripes(chunk)
			}
			r.Write(chunk[:1<<20-64])
			f.WriteStripes(chunk[:1<<20-64])
			near32Real, near32Ref = &r, f
		}
		n.real = *near32Real
		n.ref = *near32Ref
		n.ref.Tail = append([]byte(nil), near32Ref.Tail...)
		n.pos = 1<<32 - 64
		n.inj = true
	}
	return n
}

// apply performs op on both hashers and returns a finding signature ("" if fine).
func (n *c13Node) apply(op c13Op, pattern string) string {
	switch op.Op {
	case "w":
		data := make([]byte, op.N)
		for i := range data {
			data[i] = c13Byte(pattern, n.pos+uint64(i))
		}
		n.pos += uint64(op.N)
		wn, err := n.real.Write(data)
		_ = wn
		if err != nil {
			return "Write returned an error"
		}
		n.ref.Write(data)
		if n.cat != nil {
			n.cat = append(n.cat, data...)
		}
	case "reset":
		n.real.Reset()
		n.ref.Reset()
		n.inj = false
		n.cat = []byte{}
	case "sum":
	}
	// oracle at every node
	before := n.real // the hasher is a plain value: compare copies
	got := n.real.Sum32()
	if lz4.VerifDump(&before) != lz4.VerifDump(&n.real) {
		return "Sum32 changes the hasher state"
	}
	want := n.ref.Sum32()
	if got != want {
		cls := "total<2^32"
		if n.ref.Total >= 1<<32 {
			cls = "2^32<=total<2^32+16"
			if n.ref.Total-1<<32 >= 16 {
				cls = "total>=2^32+16"
			}
		}
		return "streaming Sum32 differs from reference XXH32: " + cls
	}
	s := n.real.Sum(nil)
	if len(s) != 4 || s[0] != byte(got) || s[1] != byte(got>>8) || s[2] != byte(got>>16) || s[3] != byte(got>>24) {
		return "Sum does not append Sum32 little-endian"
	}
	if n.cat != nil {
		if one := lz4.VerifChecksumZero(n.cat); one != want {
			return "one-shot ChecksumZero differs from reference XXH32"
		}
	}
	return ""
}

func c13RunHist(k c13Case) *ev.Finding {
	var f *ev.Finding
	if p, msg := ev.Try(func() {
		n := c13Start(k.Start)
		for i, op := range k.Ops {
			if sig := n.apply(op, k.Pattern); sig != "" {
				kk := k
				kk.Ops = k.Ops[:i+1]
				f = &ev.Finding{Sig: sig, What: fmt.Sprintf("history %v from %s", kk.Ops, k.Start), Case: kk}
				return
			}
		}
	}); p {
		return &ev.Finding{Sig: "panic in XXH32", What: msg, Case: k}
	}
	return f
}

func c13RunOneshot(k c13Case) *ev.Finding {
	var data []byte
	if k.Bits >= 0 && k.Pattern == "bits" {
		data = make([]byte, k.Len)
		for i := range data {
			if k.Bits>>uint(i)&1 == 1 {
				data[i] = 0xFF
			}
		}
	} else {
		data = make([]byte, k.Len)
		for i := range data {
			data[i] = c13Byte(k.Pattern, uint64(i))
		}
	}
	got := lz4.VerifChecksumZero(data)
	if got != ref.XXH32(data) {
		return &ev.Finding{Sig: "one-shot ChecksumZero differs from reference XXH32", What: fmt.Sprintf("len %d pattern %s", k.Len, k.Pattern), Case: k}
	}
	return nil
}

// c13RunBig streams 4 GiB + k bytes through the real hasher and the reference in lock-step.
func c13RunBig(c *ev.Ctx) {
	chunk := make([]byte, 1<<20)
	for i := range chunk {
		chunk[i] = c13Byte("lcg", uint64(i))
	}
	var real lz4.VerifXXH
	real.Reset()
	rf := ref.NewXXH()
	for i := 0; i < 4096; i++ {
		real.Write(chunk)
		rf.WriteStripes(chunk)
	}
	for k := 0; k <= 17; k++ {
		r2 := real
		f2 := *rf
		f2.Tail = nil
		r2.Write(chunk[:k])
		f2.Write(chunk[:k])
		c.Eval(1)
		c.Distinct(1)
		c.Add("stream_4GiB_plus_k", 1)
		if r2.Sum32() != f2.Sum32() {
			cls := "2^32<=total<2^32+16"
			if k >= 16 {
				cls = "total>=2^32+16"
			}
			c.Report(&ev.Finding{Sig: "streaming Sum32 differs from reference XXH32: " + cls,
				What: fmt.Sprintf("real 4 GiB + %d byte stream", k), Case: c13Case{Kind: "big", K: k}})
		}
	}
}

// c13RunFrame drives a Writer→Reader frame of 4 GiB + 5 zero bytes; the trailer must equal
// the reference XXH32 of the content.
func c13RunFrame(c *ev.Ctx) {
	const total = 1<<32 + 5
	pr, pw := io.Pipe()
	var tail [8]byte
	var frameLen int64
	done := make(chan error, 1)
	go func() {
		// keep the last 8 bytes of the frame; feed everything to a Reader through a second pipe
		buf := make([]byte, 1<<16)
		for {
			n, err := pr.Read(buf)
			for _, b := range buf[:n] {
				copy(tail[:], tail[1:])
				tail[7] = b
			}
			frameLen += int64(n)
			if err != nil {
				done <- nil
				return
			}
		}
	}()
	w := lz4.NewWriter(pw)
	w.Apply(lz4.BlockSizeOption(lz4.Block4Mb))
	zeros := make([]byte, 4<<20)
	rf := ref.NewXXH()
	var left int64 = total
	for left > 0 {
		n := int64(len(zeros))
		if n > left {
			n = left
		}
		if _, err := w.Write(zeros[:n]); err != nil {
			c.Machinery("C13 frame: write: %v", err)
			return
		}
		if n%16 == 0 {
			rf.WriteStripes(zeros[:n])
		} else {
			rf.Write(zeros[:n])
		}
		left -= n
	}
	w.Close()
	pw.Close()
	<-done
	want := rf.Sum32()
	got := uint32(tail[4]) | uint32(tail[5])<<8 | uint32(tail[6])<<16 | uint32(tail[7])<<24
	c.Eval(1)
	c.Distinct(1)
	c.Add("frame_4GiB_plus_5", 1)
	if got != want {
		c.Report(&ev.Finding{Sig: "content checksum of a 4 GiB + 5 byte frame differs from reference XXH32",
			What: fmt.Sprintf("got %08x want %08x", got, want), Case: c13Case{Kind: "frame"}})
	}
}

func init() {
	states := map[string]bool{}
	ev.Register(&ev.Driver{
		Prop:  "C13",
		Level: "model_checking",
		Rule: "explicit-state search, no state merging: every history of depth<=D over the alphabet {Write(k): k in 0..17,31,32,33,47,48,49,64,100; Sum32; Reset} " +
			"on the real streaming hasher from three start states (zero value, after Reset, injected lanes with total=2^32-64), two byte patterns, reference hasher in lock-step and " +
			"one-shot ChecksumZero over the concatenation at every node; one-shot over every length 0..1024 and every string over {00,FF} up to length 12; a real 4 GiB+k stream for k in 0..17. " +
			"distinct_nontrivial counts histories (each distinct by construction) whose last op is a Write or Reset.",
		Assumptions: []string{"ref.XXH (byte-at-a-time, 64-bit length) is the specification; it is checked against published vectors at start-up",
			"byte values are drawn from two patterns only: the hasher's control flow depends on lengths, not values"},
		Run: func(c *ev.Ctx) {
			// self-check of the reference against published XXH32 vectors
			for _, v := range []struct {
				s string
				h uint32
			}{{"", 0x02CC5D05}, {"a", 0x550D7456}, {"abc", 0x32D153FF}, {"Nobody inspects the spammish repetition", 0xE2293B2F}} {
				if ref.XXH32([]byte(v.s)) != v.h {
					c.Machinery("reference XXH32 fails published vector %q", v.s)
					return
				}
			}
			depth := 4
			if c.Thorough() {
				depth = 5
			}
			var alphabet []c13Op
			for _, k := range c13Lens {
				alphabet = append(alphabet, c13Op{"w", k})
			}
			alphabet = append(alphabet, c13Op{Op: "sum"}, c13Op{Op: "reset"})
			var transitions, traces int64
			for _, start := range []string{"zero", "reset", "near32"} {
				for _, pattern := range []string{"ctr", "lcg"} {
					var rec func(n *c13Node, ops []c13Op)
					rec = func(n *c13Node, ops []c13Op) {
						if len(ops) == depth {
							return
						}
						for ai, a := range alphabet {
							if len(ops) == 0 && !c.Mine(int64(ai)) {
								continue
							}
							m := n.clone()
							nops := append(append([]c13Op{}, ops...), a)
							var sig string
							if p, msg := ev.Try(func() { sig = m.apply(a, pattern) }); p {
								sig = "panic in XXH32: " + msg
							}
							transitions++
							traces++
							c.Eval(1)
							if a.Op != "sum" {
								c.Distinct(1)
							}
							t := m.ref.Total
							cls := t
							if t > 64 && t < 1<<32-64 {
								cls = 64
							}
							states[fmt.Sprintf("%d/%d", len(m.ref.Tail), cls)] = true
							if sig != "" {
								k := c13Case{Kind: "hist", Start: start, Pattern: pattern, Ops: nops}
								c.Confirm(&ev.Finding{Sig: sig, What: fmt.Sprintf("history %v from %s", nops, start), Case: k},
									func() *ev.Finding { return c13RunHist(k) })
								continue // do not extend a failing history
							}
							if len(nops) == 2 {
								c.Sample(map[string]interface{}{"start": start, "pattern": pattern, "history": nops})
							}
							rec(m, nops)
						}
					}
					rec(c13Start(start), nil)
				}
			}
			// one-shot
			for n := 0; n <= 1024; n++ {
				for _, pat := range []string{"ctr", "lcg"} {
					if !c.Next() {
						continue
					}
					k := c13Case{Kind: "oneshot", Len: n, Pattern: pat, Bits: -1}
					c.Eval(1)
					c.Distinct(1)
					c.Add("oneshot", 1)
					if f := c13RunOneshot(k); f != nil {
						c.Confirm(f, func() *ev.Finding { return c13RunOneshot(k) })
					}
				}
			}
			for n := 0; n <= 12; n++ {
				for bits := 0; bits < 1<<uint(n); bits++ {
					if !c.Next() {
						continue
					}
					k := c13Case{Kind: "oneshot", Len: n, Pattern: "bits", Bits: bits}
					c.Eval(1)
					c.Distinct(1)
					c.Add("oneshot", 1)
					if f := c13RunOneshot(k); f != nil {
						c.Confirm(f, func() *ev.Finding { return c13RunOneshot(k) })
					}
				}
			}
			if c.Shard == 0 {
				c13RunBig(c)
				transitions += 4096 + 18
			}
			if c.Shard == 1%c.NShards && c.Thorough() {
				c13RunFrame(c)
			}
			c.Add("transitions", transitions)
			c.Add("traces", traces)
			c.Add("states_in_shard", int64(len(states)))
			keys := make([]string, 0, len(states))
			for k := range states {
				keys = append(keys, k)
			}
			c.P.Extra[fmt.Sprintf("states_%d", c.Shard)] = keys
			c.Flag("exhaustive", true)
			c.Max("depth_completed", int64(depth))
		},
		Finalize: func(cov map[string]interface{}, p *ev.Partial) {
			all := map[string]bool{}
			for k, v := range p.Extra {
				if len(k) > 7 && k[:7] == "states_" {
					for _, s := range v.([]interface{}) {
						all[s.(string)] = true
					}
					delete(cov, k)
				}
			}
			cov["states"] = len(all)
			cov["transitions"] = p.Counters["transitions"]
			cov["traces_validated_against_impl"] = p.Counters["traces"]
			cov["explanation"] = "states = distinct (buffered bytes, total-length class) pairs of the real hasher reached; every transition is executed on the real hasher, so every explored trace is an implementation trace"
		},
		Replay: func(c *ev.Ctx) {
			var k c13Case
			if err := json.Unmarshal(c.ReplayRaw, &k); err != nil {
				c.Machinery("bad replay: %v", err)
				return
			}
			switch k.Kind {
			case "hist":
				if f := c13RunHist(k); f != nil {
					c.Report(f)
				}
			case "oneshot":
				if f := c13RunOneshot(k); f != nil {
					c.Report(f)
				}
			case "big":
				c13RunBig(c)
			case "frame":
				c13RunFrame(c)
			}
		},
	})
}
