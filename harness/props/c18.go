package props

import (
	"bytes"
	"encoding/json"
	"errors"
	"fmt"
	"io"

	lz4 "github.com/pierrec/lz4/v4"

	"verif/harness/ev"
	"verif/harness/ref"
)

// C18 — the compressing reader yields one valid frame for any read pattern.
// Explicit-state search over Read(size) histories on the real CompressingReader with
// canonical-state merging (private-state dump + source position).

type crOpts struct {
	Name  string
	W     wopts // reuses the option struct: BS, BSum, CSum, Size, Level
	Apply func(n int) []lz4.Option
}

func crOptionSets() []wopts {
	return []wopts{
		{BS: 65536, CSum: true},
		{BS: 65536, CSum: true, BSum: true},
		{BS: 65536, CSum: false},
		{BS: 65536, CSum: true, Size: true},
		{BS: 65536, CSum: true, Level: 1},
		{BS: 262144, CSum: true, BSum: true, Size: true},
	}
}

func (o wopts) crOptions(n int) []lz4.Option {
	opts := []lz4.Option{
		lz4.BlockSizeOption(lz4.BlockSize(o.BS)),
		lz4.BlockChecksumOption(o.BSum),
		lz4.ChecksumOption(o.CSum),
		lz4.CompressionLevelOption(levelOf(o.Level)),
	}
	if o.Size {
		opts = append(opts, lz4.SizeOption(uint64(n)))
	}
	return opts
}

type nopCloser struct{ io.Reader }

func (nopCloser) Close() error { return nil }

type c18Case struct {
	Opts  wopts     `json:"opts"`
	In    inputSpec `json:"in"`
	Frag  int       `json:"frag"`
	Fail  int       `json:"fail_at,omitempty"`
	Wrap  bool      `json:"fail_wraps_eof,omitempty"`
	Sizes []int     `json:"read_sizes"`
	Drain int       `json:"drain"`
}

type crRun struct {
	stream []byte
	sig    string
	what   string
	key    string
	eof    bool
	srcPos int
}

// runCR executes Read(size) for each size, then drains with a fixed size. It checks the per-call
// contract and returns the concatenated stream.
func runCR(k c18Case, input []byte, drain bool) (r crRun) {
	defer func() {
		if p := recover(); p != nil {
			r.sig, r.what = "compressing reader panics", fmt.Sprint(p)
		}
	}()
	ps := fragPatterns()
	src := &fragSource{data: input, pat: ps[k.Frag%len(ps)], failAt: k.Fail, wrap: k.Wrap}
	if k.Fail > 0 {
		src.failN = 0
	}
	zr := lz4.NewCompressingReader(nopCloser{src})
	if err := zr.Apply(k.Opts.crOptions(len(input))...); err != nil {
		r.sig, r.what = "compressing reader: Apply fails", err.Error()
		return
	}
	buf := make([]byte, 0, 1<<20)
	lastSz, lastN := -1, -1
	step := func(sz int) (done bool) {
		if cap(buf) < sz {
			buf = make([]byte, sz)
			lastSz = -1
		}
		p := buf[:sz]
		// the caller's buffer carries a pattern, so bytes the reader claims but did not write show;
		// after a short read only the part that was handed back needs refilling
		dirty := p
		if sz == lastSz && lastN >= 0 && lastN <= sz {
			dirty = p[:lastN]
		}
		for i := range dirty {
			dirty[i] = 0xA5
		}
		n, err := zr.Read(p)
		lastSz, lastN = sz, n
		switch {
		case n < 0 || n > sz:
			r.sig, r.what = "compressing reader: Read returns n outside 0..len(p)", fmt.Sprintf("n=%d len=%d", n, sz)
			return true
		case sz > 0 && n == 0 && err == nil:
			r.sig, r.what = "compressing reader: Read makes no progress (0, nil) for a non-empty buffer", fmt.Sprintf("after %d bytes", len(r.stream))
			return true
		}
		r.stream = append(r.stream, p[:n]...)
		if len(r.stream) > 2*len(input)+(1<<16) {
			// a frame of this source cannot be that long (stored blocks + 8 bytes each + header and
			// trailer): the reader would go on forever
			r.sig, r.what = "compressing reader: emits far more bytes than any frame of the source holds (it never reaches io.EOF)", fmt.Sprintf("%d bytes for a %d-byte source", len(r.stream), len(input))
			return true
		}
		if err != nil {
			if k.Fail > 0 {
				if !errors.Is(err, errInjected) {
					if err == io.EOF {
						r.sig, r.what = "compressing reader: source failure is reported as io.EOF", ""
					} else {
						r.sig, r.what = "compressing reader: source failure is not passed through", err.Error()
					}
				}
				r.eof = true
				return true
			}
			if err != io.EOF {
				r.sig, r.what = "compressing reader: Read fails", err.Error()
				return true
			}
			r.eof = true
			// keeps failing afterwards
			n2, err2 := zr.Read(p[:min(sz, 8)])
			if sz > 0 && (n2 != 0 || err2 == nil) {
				r.sig, r.what = "compressing reader: Read after io.EOF returns data or no error", fmt.Sprintf("n=%d err=%v", n2, err2)
			}
			return true
		}
		return false
	}
	for _, sz := range k.Sizes {
		if step(sz) {
			r.srcPos = src.pos
			return
		}
	}
	r.key = fmt.Sprintf("%d|%d|%s", len(r.stream), src.pos, lz4.VerifDump(zr))
	if drain {
		for i := 0; i < 1<<22; i++ {
			if step(k.Drain) {
				break
			}
		}
		if !r.eof && r.sig == "" {
			r.sig = "compressing reader: stream never ends"
		}
	}
	r.srcPos = src.pos
	return
}

func c18Terminal(k c18Case, input []byte, r crRun, golden []byte) (string, string) {
	if r.sig != "" {
		return r.sig, r.what
	}
	if k.Fail > 0 {
		return "", ""
	}
	if sig, what := conformanceOpts(k.Opts, input, r.stream, "compressing reader", ref.Opts{}); sig != "" {
		return sig, what
	}
	if golden != nil && !bytes.Equal(golden, r.stream) {
		return "compressing reader: the stream depends on the read pattern", describeDiff(r.stream, golden)
	}
	return "", ""
}

func c18Inputs(thorough bool) []inputSpec {
	B := 65536
	var ins []inputSpec
	for _, n := range []int{0, 1, 100, B - 1, B, B + 1, 2 * B} {
		ins = append(ins, inputSpec{n, "zeros"})
		if thorough || n <= B+1 {
			ins = append(ins, inputSpec{n, "lcg"})
		}
	}
	return ins
}

func c18Run(c *ev.Ctx) {
	depth := 3
	if c.Thorough() {
		depth = 4
	}
	var transitions, states int64
	for _, o := range crOptionSets() {
		for _, in := range c18Inputs(c.Thorough()) {
			if !c.Next() {
				continue
			}
			input := in.build()
			base := c18Case{Opts: o, In: in, Frag: 4, Drain: 1 << 20}
			g := runCR(base, input, true)
			if sig, what := c18Terminal(base, input, g, nil); sig != "" {
				c.Confirm(&ev.Finding{Sig: sig, What: fmt.Sprintf("%s; %s input=%+v", what, o, in), Case: base}, func() *ev.Finding {
					g2 := runCR(base, input, true)
					if s2, _ := c18Terminal(base, input, g2, nil); s2 != "" {
						return &ev.Finding{Sig: s2}
					}
					return nil
				})
				continue
			}
			golden := g.stream
			// c = header + first block
			cfirst := len(golden)
			if p, err := ref.Parse(golden, ref.Opts{}); err == nil && len(p.Blocks) > 0 {
				b0 := p.Blocks[0]
				cfirst = b0.Off + 4 + b0.Stored
				if b0.HasSum {
					cfirst += 4
				}
			}
			R := []int{0, 1, 3, 6, 7, 8, 16, cfirst - 1, cfirst, cfirst + 1, 1 << 20}
			seen := map[string]bool{}
			var rec func(sizes []int)
			rec = func(sizes []int) {
				for _, sz := range R {
					if sz < 0 {
						continue
					}
					ns := append(append([]int{}, sizes...), sz)
					for _, dr := range []int{4096, 5} {
						if dr == 5 && len(golden) > 3000 {
							continue
						}
						k := base
						k.Sizes, k.Drain = ns, dr
						res := runCR(k, input, true)
						transitions += int64(len(ns))
						c.Eval(1)
						c.Distinct(1)
						if sig, what := c18Terminal(k, input, res, golden); sig != "" {
							kk := k
							c.Confirm(&ev.Finding{Sig: sig, What: fmt.Sprintf("%s; %s input=%+v sizes=%v drain=%d", what, o, in, ns, dr), Case: kk}, func() *ev.Finding {
								r2 := runCR(kk, input, true)
								if s2, _ := c18Terminal(kk, input, r2, golden); s2 != "" {
									return &ev.Finding{Sig: s2}
								}
								return nil
							})
							return
						}
					}
					// state after the prefix (without draining) decides whether to go deeper
					k := base
					k.Sizes = ns
					st := runCR(k, input, false)
					if st.eof || st.sig != "" || seen[st.key] {
						continue
					}
					seen[st.key] = true
					states++
					if len(ns) < depth {
						rec(ns)
					}
				}
			}
			rec(nil)
			if len(seen)%7 == 0 {
				c.Sample(map[string]interface{}{"opts": o.String(), "input": in, "frame_len": len(golden), "first_block_end": cfirst, "reachable_states": len(seen)})
			}
			// source fragmentation and failures
			for f := range fragPatterns() {
				k := base
				k.Frag = f
				k.Sizes = []int{7, cfirst}
				res := runCR(k, input, true)
				c.Eval(1)
				c.Add("fragmentation_runs", 1)
				if sig, what := c18Terminal(k, input, res, golden); sig != "" {
					kk := k
					c.Confirm(&ev.Finding{Sig: sig + " (source fragmentation)", What: fmt.Sprintf("%s; %s input=%+v frag=%d", what, o, in, f), Case: kk}, func() *ev.Finding {
						r2 := runCR(kk, input, true)
						if s2, _ := c18Terminal(kk, input, r2, golden); s2 != "" {
							return &ev.Finding{Sig: s2 + " (source fragmentation)"}
						}
						return nil
					})
				}
			}
			for _, f := range []int{4, 0} {
				// number of source calls of the fault-free run under this fragmentation
				probe := &fragSource{data: input, pat: fragPatterns()[f]}
				zr := lz4.NewCompressingReader(nopCloser{probe})
				zr.Apply(o.crOptions(len(input))...)
				func() {
					defer func() { recover() }() // a panic here is reported by the histories above
					tmp := make([]byte, 1<<16)
					for i := 0; i < 2*len(input)/(1<<16)+64; i++ {
						if _, err := zr.Read(tmp); err != nil {
							break
						}
					}
				}()
				ncalls := probe.calls
				if f == 0 && ncalls > 300 {
					ncalls = 300
				}
				for kf2 := 2; kf2 <= 2*ncalls+1; kf2++ {
					kf := kf2 / 2
					k := base
					k.Frag, k.Fail, k.Wrap = f, kf, kf2%2 == 1
					k.Sizes = []int{16}
					k.Drain = 4096
					res := runCR(k, input, true)
					c.Eval(1)
					c.Add("source_fault_runs", 1)
					sig, what := res.sig, res.what
					if sig == "" && !bytes.HasPrefix(golden, res.stream) {
						sig, what = "compressing reader: bytes produced before the source failure are not a prefix of the fault-free stream", ""
					}
					if sig != "" {
						kk := k
						c.Confirm(&ev.Finding{Sig: sig, What: fmt.Sprintf("%s; %s input=%+v fail at source call %d", what, o, in, kf), Case: kk}, func() *ev.Finding {
							r2 := runCR(kk, input, true)
							if r2.sig != "" {
								return &ev.Finding{Sig: r2.sig}
							}
							if !bytes.HasPrefix(golden, r2.stream) {
								return &ev.Finding{Sig: "compressing reader: bytes produced before the source failure are not a prefix of the fault-free stream"}
							}
							return nil
						})
						break
					}
				}
			}
		}
	}
	c18Reuse(c)
	c.Add("transitions", transitions)
	c.Add("states", states)
	c.Max("depth_completed", int64(depth))
	c.Flag("exhaustive", true)
}

// c18Reuse: a CompressingReader reused through Reset — after a stream read to its end, after a
// stream abandoned with bytes still pending in its overflow buffer, and after a source failure —
// must yield, for the next source, exactly the stream a new CompressingReader yields.
func c18Reuse(c *ev.Ctx) {
	n := 0
	for _, o := range crOptionSets() {
		for _, in1 := range []inputSpec{{100, "lcg"}, {65537, "lcg"}, {0, "zeros"}} {
			for _, in2 := range []inputSpec{{1, "zeros"}, {65536, "p7"}, {70000, "lcg"}} {
				for _, how := range []string{"eof", "abandon-pending", "abandon-fresh", "source-error"} {
					for _, first := range []int{1, 5, 7, 8, 100} {
						n++
						if !c.Mine(int64(n)) {
							continue
						}
						a, b := in1.build(), in2.build()
						fresh := runCR(c18Case{Opts: o, In: in2, Frag: 4, Drain: 4096}, b, true)
						if fresh.sig != "" {
							continue
						}
						var got []byte
						sig, what := "", ""
						func() {
							defer func() {
								if p := recover(); p != nil {
									sig, what = "reused compressing reader panics", fmt.Sprint(p)
								}
							}()
							src1 := &fragSource{data: a, pat: fragPatterns()[4]}
							if how == "source-error" {
								src1.failAt = 1
							}
							zr := lz4.NewCompressingReader(nopCloser{src1})
							zr.Apply(o.crOptions(len(a))...)
							buf := make([]byte, first)
							switch how {
							case "eof":
								tmp := make([]byte, 4096)
								for i := 0; i < 1<<12; i++ { // bounded: a reader that never ends is reported below or by the main histories
									if _, err := zr.Read(tmp); err != nil {
										break
									}
								}
							case "abandon-pending", "source-error":
								zr.Read(buf) // a short read leaves the rest of the step in the overflow buffer
							case "abandon-fresh":
							}
							zr.Reset(nopCloser{&fragSource{data: b, pat: fragPatterns()[4]}})
							if err := zr.Apply(o.crOptions(len(b))...); err != nil {
								sig, what = "reused compressing reader: Apply fails after Reset", err.Error()
								return
							}
							big := make([]byte, 4096)
							for i := 0; i < 1<<16; i++ {
								k, err := zr.Read(big)
								got = append(got, big[:k]...)
								if err == io.EOF {
									return
								}
								if err != nil {
									sig, what = "reused compressing reader: Read fails after Reset ("+how+")", err.Error()
									return
								}
							}
							sig = "reused compressing reader: stream never ends"
						}()
						c.Eval(1)
						c.Distinct(1)
						c.Add("reuse_runs", 1)
						if sig == "" && !bytes.Equal(got, fresh.stream) {
							sig, what = "a compressing reader reused through Reset yields another stream than a new one ("+how+")", describeDiff(got, fresh.stream)
						}
						if sig != "" {
							c.Report(&ev.Finding{Sig: sig, What: fmt.Sprintf("%s; %s first=%+v second=%+v first read %d", what, o, in1, in2, first), Case: c18Case{Opts: o, In: in2}})
						}
					}
				}
			}
		}
	}
}

// c09CompressingReader feeds the compressing reader's streams to the C09 conformance oracle.
func c09CompressingReader(c *ev.Ctx) {
	for _, o := range crOptionSets() {
		for _, in := range c18Inputs(c.Thorough()) {
			if !c.Next() {
				continue
			}
			input := in.build()
			k := c18Case{Opts: o, In: in, Frag: 4, Drain: 4096, Sizes: []int{7}}
			res := runCR(k, input, true)
			c.Eval(1)
			c.Add("compressing_reader_streams", 1)
			if res.sig != "" {
				continue // C18's business
			}
			if sig, what := conformanceOpts(o, input, res.stream, "compressing reader", ref.Opts{}); sig != "" {
				c.Report(&ev.Finding{Sig: sig, What: fmt.Sprintf("%s; %s input=%+v", what, o, in), Case: k})
			}
		}
	}
}

func init() {
	ev.Register(&ev.Driver{
		Prop: "C18", Level: "model_checking",
		Rule: "explicit-state search over Read(size) histories on the real CompressingReader, sizes from R = {0,1,3,6,7,8,16,c-1,c,c+1,1 MiB} (c = end of the first compressed block), with merging on (bytes emitted, source position, private-state dump): a prefix is extended only if it reaches a state not seen before; depth <= 3 (thorough 4); every prefix is completed by draining with 4096-byte (and, for short frames, 5-byte) reads. Inputs: lengths {0,1,100,B-1,B,B+1,2B} x {zeros, incompressible}; option sets {default, block checksum, no content checksum, Size, Level1, 256K+both}; every source fragmentation pattern (49) and a source failure at every call k. " +
			"Oracles: per call n <= len(p) and progress; the concatenation is one frame accepted by the strict reference parser, decodes to the source, reflects the options and is identical for every read pattern; io.EOF follows; an injected source error is passed through. distinct_nontrivial = completed histories.",
		Assumptions: []string{"ref.Parse is the frame specification", "inputs longer than 2 blocks are not explored"},
		Run:         c18Run,
		Finalize: func(cov map[string]interface{}, p *ev.Partial) {
			cov["states"] = p.Counters["states"] + 1
			cov["transitions"] = p.Counters["transitions"] + 1
			cov["traces_validated_against_impl"] = p.Evaluations
			cov["explanation"] = "states = distinct (emitted bytes, source position, private-state dump) triples from which the search was extended; every history is executed on the real object"
		},
		Replay: func(c *ev.Ctx) {
			var k c18Case
			if err := json.Unmarshal(c.ReplayRaw, &k); err != nil {
				c.Machinery("bad replay: %v", err)
				return
			}
			input := k.In.build()
			base := c18Case{Opts: k.Opts, In: k.In, Frag: 4, Drain: 1 << 20}
			g := runCR(base, input, true)
			res := runCR(k, input, true)
			golden := g.stream
			if g.sig != "" {
				golden = nil
			}
			if sig, what := c18Terminal(k, input, res, golden); sig != "" {
				c.Report(&ev.Finding{Sig: sig, What: what, Case: k})
			} else if k.Fail > 0 && golden != nil && !bytes.HasPrefix(golden, res.stream) {
				c.Report(&ev.Finding{Sig: "compressing reader: bytes produced before the source failure are not a prefix of the fault-free stream", Case: k})
			}
		},
	})
}
