package props

import (
	"bytes"
	"errors"
	"fmt"
	"io"
	"sync"
	"time"

	lz4 "github.com/pierrec/lz4/v4"

	"verif/harness/ev"
	"verif/harness/ref"
)

// Shared machinery for the frame-level properties: the Writer option grid, inputs relative
// to the block size, delivery plans (Write partitions with Flush, ReadFrom with
// fragmentation), read-back patterns.

type wopts struct {
	BS     int  `json:"bs"` // block size in bytes (65536, 262144, 1<<20, 4<<20)
	BSum   bool `json:"bsum"`
	CSum   bool `json:"csum"`
	Size   bool `json:"size"`
	Level  int  `json:"level"` // 0 = Fast, 1..9
	Conc   int  `json:"conc"`  // 1,2,4, 0 = GOMAXPROCS
	Legacy bool `json:"legacy"`
}

func (o wopts) String() string {
	return fmt.Sprintf("bs=%d bsum=%v csum=%v size=%v level=%d conc=%d legacy=%v", o.BS, o.BSum, o.CSum, o.Size, o.Level, o.Conc, o.Legacy)
}

func (o wopts) blockLen() int {
	if o.Legacy {
		return 8 << 20
	}
	return o.BS
}

func levelOf(l int) lz4.CompressionLevel {
	if l == 0 {
		return lz4.Fast
	}
	return lz4.CompressionLevel(1 << (8 + uint(l)))
}

func (o wopts) options(n int) []lz4.Option {
	opts := []lz4.Option{
		lz4.BlockSizeOption(lz4.BlockSize(o.BS)),
		lz4.BlockChecksumOption(o.BSum),
		lz4.ChecksumOption(o.CSum),
		lz4.CompressionLevelOption(levelOf(o.Level)),
		lz4.ConcurrencyOption(o.Conc),
		lz4.LegacyOption(o.Legacy),
	}
	if o.Size {
		opts = append(opts, lz4.SizeOption(uint64(n)))
	}
	return opts
}

// optionGrid: quick = full product over {64K} x bsum x csum x size x {Fast,L1,L9} x {1,2}
// plus a covering set in which every remaining value of every axis appears with every value
// of the boolean axes; thorough = the full product at 64K plus the other block sizes at a
// reduced level/concurrency set.
func optionGrid(thorough bool) []wopts {
	var g []wopts
	bools := []bool{false, true}
	levels := []int{0, 1, 9}
	concs := []int{1, 2}
	if thorough {
		levels = []int{0, 1, 2, 3, 4, 5, 6, 7, 8, 9}
		concs = []int{1, 2, 4, 0}
	}
	for _, bs := range bools {
		for _, cs := range bools {
			for _, sz := range bools {
				for _, l := range levels {
					for _, c := range concs {
						g = append(g, wopts{BS: 65536, BSum: bs, CSum: cs, Size: sz, Level: l, Conc: c})
					}
				}
			}
		}
	}
	// covering set for the other axis values
	i := 0
	for _, bsz := range []int{262144, 1 << 20, 4 << 20} {
		for _, l := range []int{0, 2, 5, 9} {
			for _, c := range []int{1, 4, 0} {
				g = append(g, wopts{BS: bsz, BSum: i&1 != 0, CSum: i&2 != 0, Size: i&4 != 0, Level: l, Conc: c})
				i++
			}
		}
	}
	for _, l := range []int{2, 3, 4, 5, 6, 7, 8} {
		for _, c := range []int{1, 4, 0} {
			g = append(g, wopts{BS: 65536, BSum: i&1 != 0, CSum: i&2 != 0, Size: i&4 != 0, Level: l, Conc: c})
			i++
		}
	}
	// legacy: block checksum / content checksum / size flags have no representation
	for _, l := range []int{0, 1} {
		for _, c := range []int{1, 2} {
			g = append(g, wopts{BS: 4 << 20, Legacy: true, Level: l, Conc: c, CSum: true})
			g = append(g, wopts{BS: 65536, Legacy: true, Level: l, Conc: c, BSum: true, Size: true})
		}
	}
	return g
}

type inputSpec struct {
	Len     int    `json:"len"`
	Content string `json:"content"` // zeros | p7 | lcg | zerosum
}

func (s inputSpec) build() []byte {
	b := make([]byte, s.Len)
	switch s.Content {
	case "p7":
		for i := range b {
			b[i] = byte('a' + i%7)
		}
	case "text":
		copy(b, srcSpec{Fam: "S4", Len: s.Len, Content: "text"}.build(nil))
	case "mixed":
		// an incompressible first half (stored raw) followed by compressible text
		h := s.Len / 2
		lcgFill(b[:h], uint64(s.Len)+3)
		copy(b[h:], srcSpec{Fam: "S4", Len: s.Len - h, Content: "text"}.build(nil))
	case "rep65536":
		copy(b, srcSpec{Fam: "S4", Len: s.Len, Content: "rep65536"}.build(nil))
	case "lcg":
		lcgFill(b, uint64(s.Len)+99)
	case "zerosum":
		// incompressible, and XXH32(b) == 0: the block is stored raw, so both the block checksum
		// (over the stored bytes) and the content checksum are 0
		lcgFill(b, uint64(s.Len)+5)
		if s.Len >= 4 {
			n := s.Len - 4
			// the last 4 bytes must be consumed by exactly one 4-byte tail step
			if n%16 <= 8 && (n%16)%4 == 0 {
				copy(b[n:], ref.ZeroPreimageTail(b[:n]))
			}
		}
	}
	return b
}

func inputsFor(B int, thorough, legacy bool) []inputSpec {
	var lens []int
	if legacy {
		lens = []int{0, 1, 100000}
		if thorough {
			lens = append(lens, 8<<20-1, 8<<20, 8<<20+1, 16<<20)
		}
		var out []inputSpec
		for _, n := range lens {
			for _, ct := range []string{"zeros", "p7", "lcg"} {
				if n > 1<<20 && ct == "p7" && !thorough {
					continue
				}
				out = append(out, inputSpec{n, ct})
			}
		}
		if !thorough {
			// one full, incompressible legacy block (it expands beyond 8 MiB)
			out = append(out, inputSpec{8 << 20, "lcg"})
		}
		return out
	} else if B > 65536 && !thorough {
		lens = []int{0, B - 1, B, B + 1, 2*B + 1}
	} else {
		lens = []int{0, 1, B - 1, B, B + 1, 2 * B, 2*B + 1, 3*B - 1}
	}
	var out []inputSpec
	for _, n := range lens {
		for _, ct := range []string{"zeros", "p7", "lcg"} {
			if n > 1<<20 && ct == "p7" && !thorough {
				continue
			}
			out = append(out, inputSpec{n, ct})
		}
	}
	if !legacy && B > 65536 {
		out = append(out, inputSpec{B, "rep65536"}, inputSpec{200000, "rep65536"})
	}
	if !legacy {
		// zero-checksum inputs: length ≡ 4 (mod 16) so that the tail is one 4-byte step
		out = append(out, inputSpec{20, "zerosum"}, inputSpec{B - 12, "zerosum"}, inputSpec{4, "zerosum"})
	}
	return out
}

// delivery describes how the input reaches the Writer.
type delivery struct {
	Kind    string `json:"kind"` // write | readfrom
	Cuts    []int  `json:"cuts,omitempty"`
	Flush   uint32 `json:"flush,omitempty"` // bit i: Flush after the i-th chunk
	Empties bool   `json:"empties,omitempty"`
	Frag    int    `json:"frag,omitempty"` // readfrom: fragmentation pattern index
}

func cutPoints(n, B int) []int {
	cand := []int{1, B - 1, B, B + 1, 2*B - 1, 2 * B, n - 1}
	seen := map[int]bool{}
	var out []int
	for _, c := range cand {
		if c > 0 && c < n && !seen[c] {
			seen[c] = true
			out = append(out, c)
		}
	}
	// ascending
	for i := range out {
		for j := i + 1; j < len(out); j++ {
			if out[j] < out[i] {
				out[i], out[j] = out[j], out[i]
			}
		}
	}
	return out
}

// fragmentation patterns of a source: cycles of length <= 2 over these behaviours
var fragKinds = []string{"1", "2", "3", "7", "all", "zero-then-data", "data+EOF"}

type fragSource struct {
	data   []byte
	pos    int
	pat    [2]int
	i      int
	zeroed bool
	calls  int
	failAt int
	failN  int  // bytes delivered together with the failure
	wrap   bool // the failure wraps io.ErrUnexpectedEOF (a source that reports a broken connection that way)
}

// errInjectedWrapped is an I/O failure that also wraps io.ErrUnexpectedEOF: it must be passed
// through like any other source failure, never be taken for the end of the input.
var errInjectedWrapped = fmt.Errorf("%w (connection lost: %w)", errInjected, io.ErrUnexpectedEOF)

func fragPatterns() [][2]int {
	var ps [][2]int
	for a := range fragKinds {
		ps = append(ps, [2]int{a, a})
	}
	for a := range fragKinds {
		for b := range fragKinds {
			if a != b {
				ps = append(ps, [2]int{a, b})
			}
		}
	}
	return ps
}

func (s *fragSource) Read(p []byte) (int, error) {
	s.calls++
	if s.calls > 50_000_000 {
		panic("source call budget exceeded")
	}
	if s.failAt > 0 && s.calls == s.failAt {
		n := s.failN
		if n > len(p) {
			n = len(p)
		}
		n = copy(p[:n], s.data[s.pos:])
		s.pos += n
		if s.wrap {
			return n, errInjectedWrapped
		}
		return n, errInjected
	}
	if len(p) == 0 {
		return 0, nil
	}
	if s.pos >= len(s.data) {
		return 0, io.EOF
	}
	kind := fragKinds[s.pat[s.i%2]]
	s.i++
	max := len(p)
	switch kind {
	case "1":
		max = 1
	case "2":
		max = 2
	case "3":
		max = 3
	case "7":
		max = 7
	case "zero-then-data":
		if !s.zeroed {
			s.zeroed = true
			s.i-- // the data part of this step comes next
			return 0, nil
		}
		s.zeroed = false
	}
	if max > len(p) {
		max = len(p)
	}
	n := copy(p[:max], s.data[s.pos:])
	s.pos += n
	if kind == "data+EOF" && s.pos >= len(s.data) {
		return n, io.EOF
	}
	return n, nil
}

type countSink struct {
	buf   bytes.Buffer
	calls int
	limit int // bytes; 0 = no byte limit
}

func (s *countSink) Write(p []byte) (int, error) {
	s.calls++
	if s.calls > 5_000_000 || (s.limit > 0 && s.buf.Len()+len(p) > s.limit) {
		// far more than any frame of the input holds: a write loop that does not advance
		panic("sink call budget exceeded (runaway)")
	}
	return s.buf.Write(p)
}

var writeScratch []byte

// writerHung: a free-running concurrent Writer did not return in this worker.
var writerHung bool

// produceFrame runs the Writer. Any error or panic is reported through err. A concurrent Writer
// runs real goroutines outside the controlled scheduler: its calls (milliseconds) get the same
// watchdog as the free-running Readers (30 s, then 120 s more), so that a Writer that blocks makes
// the check report instead of keeping it from ending; which schedules block is decided in C08.
func produceFrame(o wopts, input []byte, d delivery) (frame []byte, err error) {
	if o.Conc == 1 || Flavour == "sched" {
		return produceFrame1(o, input, d)
	}
	if writerHung {
		return nil, errors.New("a call does not return (free-running concurrent Writer; further cases of this worker not run)")
	}
	type res struct {
		f []byte
		e error
	}
	done := make(chan res, 1)
	in := input
	go func() { f, e := produceFrame1(o, in, d); done <- res{f, e} }()
	select {
	case r := <-done:
		return r.f, r.e
	case <-time.After(watchdog):
	}
	select {
	case r := <-done:
		return r.f, r.e
	case <-time.After(4 * watchdog):
	}
	writerHung = true
	return nil, errors.New("a call does not return (free-running concurrent Writer; further cases of this worker not run)")
}

func produceFrame1(o wopts, input []byte, d delivery) (frame []byte, err error) {
	defer func() {
		if r := recover(); r != nil {
			err = fmt.Errorf("panic: %v", r)
		}
	}()
	sink := &countSink{limit: 4*len(input) + 1<<20}
	w := lz4.NewWriter(sink)
	if e := w.Apply(o.options(len(input))...); e != nil {
		return nil, fmt.Errorf("Apply: %w", e)
	}
	switch d.Kind {
	case "readfrom":
		ps := fragPatterns()
		src := &fragSource{data: input, pat: ps[d.Frag%len(ps)]}
		n, e := w.ReadFrom(src)
		if e != nil {
			return nil, fmt.Errorf("ReadFrom: %w", e)
		}
		if int(n) != len(input) {
			return nil, fmt.Errorf("ReadFrom returned %d for %d bytes", n, len(input))
		}
	default:
		prev := 0
		chunks := append(append([]int{}, d.Cuts...), len(input))
		for i, c := range chunks {
			if d.Empties {
				if n, e := w.Write(nil); n != 0 || e != nil {
					return nil, fmt.Errorf("empty Write returned %d, %v", n, e)
				}
			}
			// the caller hands over a buffer of its own and reuses it as soon as Write has returned
			chunk := append(writeScratch[:0], input[prev:c]...)
			writeScratch = chunk
			n, e := w.Write(chunk)
			for j := 0; j < len(chunk); j += 1 + len(chunk)/512 {
				chunk[j] ^= 0xA7
			}
			if e != nil {
				return nil, fmt.Errorf("Write: %w", e)
			}
			if n != c-prev {
				return nil, fmt.Errorf("Write returned %d for %d bytes", n, c-prev)
			}
			prev = c
			if d.Flush>>uint(i)&1 == 1 {
				if e := w.Flush(); e != nil {
					return nil, fmt.Errorf("Flush: %w", e)
				}
			}
		}
	}
	if e := w.Close(); e != nil {
		return nil, fmt.Errorf("Close: %w", e)
	}
	return sink.buf.Bytes(), nil
}

// read-back patterns: WriteTo, or Read with a cycle of at most two buffer sizes
type readPattern struct {
	WriteTo bool   `json:"write_to,omitempty"`
	Sizes   [2]int `json:"sizes"`
	Conc    int    `json:"conc"`
}

func readSizes(B int) []int { return []int{1, 7, B - 1, B, B + 1, 2 * B, 16 << 20} }

func readPatterns(B int, small bool) []readPattern {
	var ps []readPattern
	for _, conc := range []int{1, 2, 4} {
		ps = append(ps, readPattern{WriteTo: true, Conc: conc})
		sizes := readSizes(B)
		for _, a := range sizes {
			ps = append(ps, readPattern{Sizes: [2]int{a, a}, Conc: conc})
		}
		for _, a := range sizes {
			for _, b := range sizes {
				if a == b {
					continue
				}
				if !small && (a <= 7 && b <= 7) {
					continue // pure tiny reads over a multi-block content: covered by the uniform patterns on small contents
				}
				if !small && !(a <= 7 || b <= 7 || a == B || b == B) {
					continue
				}
				ps = append(ps, readPattern{Sizes: [2]int{a, b}, Conc: conc})
			}
		}
	}
	return ps
}

type readResult struct {
	out     []byte
	err     error // terminal error: io.EOF for a clean Read end, nil for a clean WriteTo
	clean   bool
	panic   string
	calls   int
	skipped bool
}

// scribble: the caller owns its buffer again after Read returned and overwrites it — every byte of
// the last 70 000 (what a decoder could still want as history) and a sparse sample of the rest.
func scribble(b []byte) {
	n := len(b)
	dense := n - 70000
	if dense < 0 {
		dense = 0
	}
	for j := 0; j < dense; j += 1 + dense/64 {
		b[j] ^= 0x5A
	}
	for j := dense; j < n; j++ {
		b[j] ^= 0x5A
	}
}

// read buffers are checked out of a cache and returned on normal completion only, so a call
// that the watchdog gave up on never shares a buffer with later calls
var (
	bufMu    sync.Mutex
	bufCache = map[int][][]byte{}
)

func getBuf(sz int) []byte {
	bufMu.Lock()
	defer bufMu.Unlock()
	if l := bufCache[sz]; len(l) > 0 {
		b := l[len(l)-1]
		bufCache[sz] = l[:len(l)-1]
		return b
	}
	return make([]byte, sz)
}

func putBuf(b []byte) {
	bufMu.Lock()
	bufCache[len(b)] = append(bufCache[len(b)], b)
	bufMu.Unlock()
}

func readBack(src io.Reader, p readPattern, limit int) readResult {
	cls := p.Conc > 1
	if hungClass[cls] {
		hungSkipped++
		return readResult{err: errSkippedHung, clean: true, skipped: true}
	}
	ch := make(chan readResult, 1)
	go func() { ch <- readBack1(src, p, limit) }()
	select {
	case r := <-ch:
		return r
	case <-time.After(watchdog):
	}
	select {
	case r := <-ch:
		slowCalls++
		return r
	case <-time.After(4 * watchdog):
	}
	hungCount[cls]++
	if hungCount[cls] >= 7 {
		hungClass[cls] = true
	}
	return readResult{err: errBlocked}
}

func readBack1(src io.Reader, p readPattern, limit int) (res readResult) {
	defer func() {
		if r := recover(); r != nil {
			res.panic = fmt.Sprint(r)
		}
	}()
	r := lz4.NewReader(src)
	if err := r.Apply(lz4.ConcurrencyOption(p.Conc)); err != nil {
		res.err = err
		return
	}
	if p.WriteTo {
		var out bytes.Buffer
		_, err := r.WriteTo(&out)
		res.out, res.err, res.clean = out.Bytes(), err, err == nil
		return
	}
	var out []byte
	var bufs [2][]byte
	for i := 0; ; i++ {
		sz := p.Sizes[i%2]
		buf := bufs[i%2]
		if buf == nil {
			buf = getBuf(sz)
			bufs[i%2] = buf
			defer putBuf(buf)
		}
		n, err := r.Read(buf)
		res.calls++
		out = append(out, buf[:n]...)
		// the caller owns its buffer again: scribble over it so that a Reader which kept a
		// reference to it (instead of a copy) decodes garbage
		scribble(buf[:n])
		if err != nil {
			res.out, res.err, res.clean = out, err, err == io.EOF
			return
		}
		if len(out) > limit {
			res.out, res.err = out, fmt.Errorf("output exceeds %d bytes", limit)
			return
		}
		if res.calls > 50_000_000 {
			res.out, res.err = out, fmt.Errorf("Read never ends")
			return
		}
	}
}

// frameCorpus enumerates (options, input, delivery) and hands each produced frame to fn.
// deliveries: "one" = a single Write only; "all" = every subset of the cut points, Flush
// subsets for <=3 cuts, empty writes, ReadFrom fragmentation patterns.
type corpusItem struct {
	Opts  wopts     `json:"opts"`
	In    inputSpec `json:"in"`
	Deliv delivery  `json:"delivery"`
}

func deliveriesFor(n, B int, mode string, thorough bool) []delivery {
	ds := []delivery{{Kind: "write"}}
	if mode == "one" {
		return ds
	}
	cuts := cutPoints(n, B)
	if mode == "few" {
		ds = append(ds, delivery{Kind: "readfrom", Frag: 4}, delivery{Kind: "readfrom", Frag: 0})
		if len(cuts) >= 2 {
			ds = append(ds, delivery{Kind: "write", Cuts: []int{cuts[0], cuts[len(cuts)-1]}}, delivery{Kind: "write", Cuts: []int{cuts[0], cuts[len(cuts)-1]}, Flush: 1})
		}
		return ds
	}
	if n > 1<<20 && !thorough {
		// MiB-sized inputs: single Write, cuts at B±1, ReadFrom
		ds = append(ds, delivery{Kind: "readfrom", Frag: 4})
		if len(cuts) >= 3 {
			ds = append(ds, delivery{Kind: "write", Cuts: []int{cuts[1], cuts[2]}})
		}
		return ds
	}
	for m := 1; m < 1<<uint(len(cuts)); m++ {
		var cs []int
		for i, c := range cuts {
			if m>>uint(i)&1 == 1 {
				cs = append(cs, c)
			}
		}
		ds = append(ds, delivery{Kind: "write", Cuts: cs})
		if len(cs) <= 3 {
			for fm := uint32(1); fm < 1<<uint(len(cs)+1); fm++ {
				ds = append(ds, delivery{Kind: "write", Cuts: cs, Flush: fm})
			}
		}
		if len(cs) == 2 {
			ds = append(ds, delivery{Kind: "write", Cuts: cs, Empties: true})
		}
	}
	for f := range fragPatterns() {
		if n > 3*65536 && f%5 != 0 {
			continue
		}
		ds = append(ds, delivery{Kind: "readfrom", Frag: f})
	}
	return ds
}

func forEachCorpus(c *ev.Ctx, mode string, fn func(it corpusItem, input, frame []byte, err error)) {
	for _, o := range optionGrid(c.Thorough()) {
		B := o.blockLen()
		for _, in := range inputsFor(o.BS, c.Thorough(), o.Legacy) {
			if !c.Next() {
				continue
			}
			input := in.build()
			for _, d := range deliveriesFor(in.Len, B, mode, c.Thorough()) {
				it := corpusItem{o, in, d}
				frame, err := produceFrame(o, input, d)
				fn(it, input, frame, err)
			}
		}
	}
}
