package props

import (
	"bytes"
	"encoding/json"
	"fmt"

	"verif/harness/ev"
	"verif/harness/ref"
)

// C16 — frames with dependent blocks decode exactly across the 64 KiB window.
// Frames come from the reference encoder (matches dictated by the plan), validated by the
// reference parser before use.

type depPlan struct {
	Sizes   []int `json:"sizes"`
	Variant int   `json:"variant"`  // index into depVariants
	RawMask int   `json:"raw_mask"` // bit j: block j stored raw
	Flags   int   `json:"flags"`    // bit0 block checksum, bit1 content checksum
	Code    int   `json:"code"`
}

type depVariant struct {
	Name string
	// offset class for the match at the first byte of block j>0 and its length
	Off1 string
	Len1 int
	// second match in the middle
	Off2 string
	Len2 int
}

var depVariants = []depVariant{
	{"first=1/4", "1", 4, "", 0},
	{"first=prev-1/19", "prev-1", 19, "1", 4},
	{"first=prev/4", "prev", 4, "prev", 19},
	{"first=prev+1/300", "prev+1", 300, "", 0},
	{"first=sum2/19", "sum2", 19, "65535", 4},
	{"first=65534/4", "65534", 4, "straddle", 19},
	{"first=65535/19", "65535", 19, "65535", 300},
	{"first=65535/300", "65535", 300, "straddle", 300},
	{"mid=straddle/19", "", 0, "straddle", 19},
	{"first=max/4", "max", 4, "max", 19},
}

func depOffset(cls string, sizes []int, j, pos, hist int) int {
	avail := hist + pos
	if avail > 65535 {
		avail = 65535
	}
	var o int
	switch cls {
	case "":
		return 0
	case "1":
		o = 1
	case "prev-1":
		o = pos + sizes[j-1] - 1
	case "prev":
		o = pos + sizes[j-1]
	case "prev+1":
		o = pos + sizes[j-1] + 1
	case "sum2":
		o = pos + sizes[j-1]
		if j >= 2 {
			o += sizes[j-2]
		}
	case "65534":
		o = 65534
	case "65535":
		o = 65535
	case "max":
		o = avail
	case "straddle":
		o = pos + 3 // the source starts 3 bytes before the block boundary and runs into this block
	}
	if o < 1 || o > avail {
		return 0
	}
	return o
}

func fillBytes(n, seed int) []byte {
	b := make([]byte, n)
	x := uint64(seed)*2654435761 + 12345
	for i := range b {
		x = x*6364136223846793005 + 1442695040888963407
		if i%3 == 0 {
			b[i] = byte(i*7 + seed) // counter part: position-dependent
		} else {
			b[i] = byte(x >> 35)
		}
	}
	return b
}

// buildDepFrame builds the frame for a plan. ok=false when the plan is not realisable (e.g.
// no history for the requested offset): such plans are skipped, not failed.
func buildDepFrame(p depPlan) (frame, content []byte, ok bool) {
	v := depVariants[p.Variant]
	fp := ref.FramePlan{BSCode: p.Code, Indep: false, BlockSum: p.Flags&1 != 0, ContentSum: p.Flags&2 != 0}
	var hist []byte
	usedMatch := false
	for j, S := range p.Sizes {
		if p.RawMask>>uint(j)&1 == 1 {
			lit := fillBytes(S, j*31+7)
			fp.Blocks = append(fp.Blocks, ref.BlockPlan{Raw: true, Data: lit, Decoded: lit})
			hist = append(hist, lit...)
			continue
		}
		var seqs []ref.Seq
		pos := 0
		remaining := S
		if j > 0 {
			if o := depOffset(v.Off1, p.Sizes, j, 0, len(hist)); o > 0 && v.Len1 < remaining {
				seqs = append(seqs, ref.Seq{Off: o, MLen: v.Len1})
				pos += v.Len1
				remaining -= v.Len1
				usedMatch = true
			}
			mid := remaining / 2
			if mid > 40 {
				mid = 40
			}
			if v.Len2 > 0 && remaining > mid+v.Len2 {
				if o := depOffset(v.Off2, p.Sizes, j, pos+mid, len(hist)); o > 0 {
					seqs = append(seqs, ref.Seq{Lit: fillBytes(mid, j*17+pos), Off: o, MLen: v.Len2})
					pos += mid + v.Len2
					remaining -= mid + v.Len2
					usedMatch = true
				}
			}
		}
		seqs = append(seqs, ref.Seq{Lit: fillBytes(remaining, j*13+pos+1)})
		bp, good := ref.BuildBlock(seqs, hist)
		if !good || len(bp.Decoded) != S {
			return nil, nil, false
		}
		if len(bp.Data) > ref.BlockMax(p.Code) {
			return nil, nil, false
		}
		fp.Blocks = append(fp.Blocks, bp)
		hist = append(hist, bp.Decoded...)
	}
	if !usedMatch && len(p.Sizes) > 1 && p.RawMask != (1<<uint(len(p.Sizes)))-1 {
		return nil, nil, false // nothing dependent in this plan
	}
	frame, content = ref.EncodeFrame(fp)
	q, err := ref.Parse(frame, ref.Opts{})
	if err != nil || !bytes.Equal(q.Content, content) {
		panic(fmt.Sprintf("C16: reference encoder and parser disagree on plan %+v: %v", p, err))
	}
	return frame, content, true
}

type c16Case struct {
	Plan depPlan     `json:"plan"`
	Read readPattern `json:"read"`
}

func c16Check(k c16Case, frame, content []byte) *ev.Finding {
	res := readBack(bytes.NewReader(frame), k.Read, len(content)+1<<20)
	if res.skipped {
		return nil
	}
	path := "Read"
	if k.Read.WriteTo {
		path = "WriteTo"
	}
	v := depVariants[k.Plan.Variant].Name
	mk := func(sig, what string) *ev.Finding {
		return &ev.Finding{Sig: sig, What: fmt.Sprintf("%s; plan=%+v variant=%s read=%+v", what, k.Plan, v, k.Read), Case: k}
	}
	switch {
	case res.panic != "":
		return mk("Reader panics on a dependent-block frame; "+path, res.panic)
	case !res.clean:
		return mk(fmt.Sprintf("Reader fails on a valid dependent-block frame; %s conc>1=%v err=%s", path, k.Read.Conc > 1, errClass(res.err)), fmt.Sprint(res.err))
	case !bytes.Equal(res.out, content):
		return mk(fmt.Sprintf("dependent-block frame decodes to other bytes; %s conc>1=%v", path, k.Read.Conc > 1), describeDiff(res.out, content))
	}
	return nil
}

func c16ReadPatterns(sizes []int) []readPattern {
	last := sizes[len(sizes)-1]
	var ps []readPattern
	total := 0
	for _, s := range sizes {
		total += s
	}
	for _, conc := range []int{1, 2, 4} {
		ps = append(ps, readPattern{WriteTo: true, Conc: conc})
		cycles := [][2]int{{65536, 65536}, {262144, 262144}, {last, last - 1}, {1, 65536}, {7, 262144}}
		if total <= 70000 {
			cycles = append(cycles, [2]int{1, 1}, [2]int{7, 7})
		}
		for _, cy := range cycles {
			if cy[0] < 1 {
				cy[0] = 1
			}
			if cy[1] < 1 {
				cy[1] = 1
			}
			ps = append(ps, readPattern{Sizes: cy, Conc: conc})
		}
	}
	return ps
}

func c16Run(c *ev.Ctx) {
	alpha := []int{1, 5, 13, 100, 65535, 65536}
	maxLen := 3
	if c.Thorough() {
		maxLen = 4
	}
	var seqs [][]int
	var rec func(cur []int)
	rec = func(cur []int) {
		if len(cur) > 0 {
			seqs = append(seqs, append([]int(nil), cur...))
		}
		if len(cur) == maxLen {
			return
		}
		for _, a := range alpha {
			rec(append(cur, a))
		}
	}
	rec(nil)
	type planSeq struct {
		sizes []int
		code  int
	}
	var plans []planSeq
	for _, s := range seqs {
		plans = append(plans, planSeq{s, 4})
	}
	// long plans pushing the dictionary over the 128 KiB trim threshold
	plans = append(plans, planSeq{[]int{65536, 65536, 65536}, 5}, planSeq{[]int{65536, 70000, 5}, 5}, planSeq{[]int{40000, 40000, 40000, 40000, 40000}, 5},
		planSeq{[]int{100000, 100000, 13}, 5}, planSeq{[]int{65536, 65536, 65536, 100}, 4},
		// a block that fills a block-maximum-sized read buffer exactly, then a small one; blocks a
		// few bytes longer than the 64 KiB window
		planSeq{[]int{262144, 100}, 5}, planSeq{[]int{200000, 62144, 50}, 5}, planSeq{[]int{65540, 100}, 5}, planSeq{[]int{65540, 13}, 5}, planSeq{[]int{65560, 65540, 100}, 5})
	if c.Thorough() {
		plans = append(plans, planSeq{[]int{4 << 20, 5}, 7}, planSeq{[]int{100, 4 << 20}, 7}, planSeq{[]int{4 << 20, 4 << 20}, 7})
	}
	realised, skipped := int64(0), int64(0)
	for _, pl := range plans {
		k := len(pl.sizes)
		for vi := range depVariants {
			for mask := 0; mask < 1<<uint(k); mask++ {
				if !c.Next() {
					continue
				}
				if k > 3 && !c.Thorough() && mask != 0 && mask != 5 {
					continue
				}
				base := depPlan{Sizes: pl.sizes, Variant: vi, RawMask: mask, Code: pl.code}
				for flags := 0; flags < 4; flags++ {
					p := base
					p.Flags = flags
					frame, content, ok := buildDepFrame(p)
					if !ok {
						skipped++
						break
					}
					realised++
					if realised%211 == 1 {
						c.Sample(p)
					}
					for _, rp := range c16ReadPatterns(pl.sizes) {
						if flags != 3 && flags != 0 && !rp.WriteTo && rp.Sizes[0] != 65536 {
							continue // single-flag variants: a reduced read-pattern set
						}
						kk := c16Case{p, rp}
						c.Eval(1)
						c.Distinct(1)
						if f := c16Check(kk, frame, content); f != nil {
							c.ConfirmFree(f, kk.Read.Conc > 1, func() *ev.Finding {
								fr, ct, ok := buildDepFrame(kk.Plan)
								if !ok {
									return nil
								}
								return c16Check(kk, fr, ct)
							})
							break
						}
					}
				}
			}
		}
	}
	c.Add("frames_built", realised)
	c.Add("plans_not_realisable", skipped)
	c.Flag("exhaustive", true)
}

func init() {
	ev.Register(&ev.Driver{Prop: "C16", Level: "exploration",
		Rule:        "grid enumeration of dependent-block frames built by the reference encoder: every block-size sequence of length 1..3 (thorough 4) over {1,5,13,100,65535,65536} plus long plans crossing the 128 KiB dictionary trim threshold (thorough: 4 MiB blocks) x 10 match variants (match at the first byte of each later block with offset in {1, prev-1, prev, prev+1, sum of previous two, 65534, 65535, max available}, lengths {4,19,300}; a second match in the middle; matches whose source straddles the block boundary) x every raw/compressed assignment x {block checksum, content checksum} x reader configurations (concurrency {1,2,4} x WriteTo / Read cycles incl. 1, 7, size-1, size, 64K, 256K). Every frame is validated by the reference parser before use. Non-trivial = every (frame, reader configuration).",
		Assumptions: []string{"ref.EncodeFrame/ref.Parse are trusted; they must agree with each other on every frame before it is used"},
		Run:         c16Run,
		Replay: func(c *ev.Ctx) {
			var k c16Case
			if err := json.Unmarshal(c.ReplayRaw, &k); err != nil {
				c.Machinery("bad replay: %v", err)
				return
			}
			fr, ct, ok := buildDepFrame(k.Plan)
			if !ok {
				c.Machinery("plan not realisable")
				return
			}
			if f := c16Check(k, fr, ct); f != nil {
				c.Report(f)
			}
		}})
}
