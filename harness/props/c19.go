package props

import (
	"bytes"
	"encoding/json"
	"errors"
	"fmt"
	"io"
	"testing/iotest"

	lz4 "github.com/pierrec/lz4/v4"

	"verif/harness/ev"
	"verif/harness/ref"
)

// C19 — frame-header acceptance is exact. The space (2^16 descriptors × 256 checksum bytes,
// content-size field present iff FLG bit 3, plus non-magic first words) is finite and is
// enumerated completely in both tiers.

type c19Case struct {
	Kind  string `json:"kind"` // vfh | reader | word
	Desc  uint16 `json:"desc"`
	Size  uint64 `json:"size"`
	H     int    `json:"h"`
	Word  uint32 `json:"word,omitempty"`
	Frag  bool   `json:"one_byte_source,omitempty"`
	Reuse bool   `json:"reused_reader,omitempty"`
}

var c19Reused *lz4.Reader

// c19Sized: a valid empty frame whose header declares a content size of 99
var c19Sized = func() []byte {
	hdr, want := c19Header(0x4068, 99, 0)
	hdr[len(hdr)-1] = want
	return append(hdr, 0, 0, 0, 0)
}()

var c19Sizes = []uint64{0, 1, 123, 1<<31 - 1, 1 << 32, 1<<63 - 1, 1 << 63, 1<<64 - 1}

func c19Header(desc uint16, size uint64, h byte) (hdr []byte, want byte) {
	d := []byte{byte(desc), byte(desc >> 8)}
	if desc&0x08 != 0 {
		for i := 0; i < 8; i++ {
			d = append(d, byte(size>>(8*uint(i))))
		}
	}
	want = byte(ref.XXH32(d) >> 8)
	hdr = append([]byte{0x04, 0x22, 0x4D, 0x18}, d...)
	hdr = append(hdr, h)
	return
}

func c19Expect(desc uint16, h, want byte) string {
	code := int(desc>>12) & 7
	switch {
	case h != want:
		return "bad-hc"
	case code < 4:
		return "bad-bs"
	}
	return "accept"
}

func c19Classify(ok bool, err error) string {
	switch {
	case err == nil && ok:
		return "accept"
	case err == nil && !ok:
		return "false-nil"
	case errors.Is(err, lz4.ErrInvalidHeaderChecksum):
		return "bad-hc"
	case errors.Is(err, lz4.ErrOptionInvalidBlockSize):
		return "bad-bs"
	}
	return "other-error:" + err.Error()
}

func c19Run(k c19Case) *ev.Finding {
	switch k.Kind {
	case "vfh":
		hdr, want := c19Header(k.Desc, k.Size, byte(k.H))
		exp := c19Expect(k.Desc, byte(k.H), want)
		var ok bool
		var err error
		if p, msg := ev.Try(func() { ok, err = lz4.ValidFrameHeader(hdr) }); p {
			return &ev.Finding{Sig: "vfh panic", What: msg, Case: k}
		}
		got := c19Classify(ok, err)
		if got != exp {
			return &ev.Finding{
				Sig:  fmt.Sprintf("ValidFrameHeader expected=%s got=%s bscode=%d sizebit=%v", exp, got, int(k.Desc>>12)&7, k.Desc&8 != 0),
				What: fmt.Sprintf("header % x", hdr), Case: k}
		}
	case "reader":
		hdr, want := c19Header(k.Desc, k.Size, byte(k.H))
		exp := c19Expect(k.Desc, byte(k.H), want)
		stream := append(append([]byte{}, hdr...), 0, 0, 0, 0)
		if k.Desc&0x04 != 0 {
			stream = append(stream, 0x05, 0x5D, 0xCC, 0x02) // XXH32("")
		}
		var n int
		var err error
		var size int
		if p, msg := ev.Try(func() {
			var src io.Reader = bytes.NewReader(stream)
			if k.Frag {
				src = iotest.OneByteReader(src) // the header arrives one byte per Read call
			}
			var r *lz4.Reader
			if k.Reuse {
				// a Reader that has just read a frame with a content size of 99 and is Reset
				if c19Reused == nil {
					c19Reused = lz4.NewReader(nil)
				}
				r = c19Reused
				r.Reset(bytes.NewReader(c19Sized))
				io.Copy(io.Discard, r)
				r.Reset(src)
			} else {
				r = lz4.NewReader(src)
			}
			n, err = r.Read(make([]byte, 16))
			size = r.Size()
		}); p {
			c19Reused = nil
			return &ev.Finding{Sig: "reader panic on header", What: msg, Case: k}
		}
		if err != io.EOF {
			c19Reused = nil // do not carry an errored Reader over
		}
		var got string
		if err == io.EOF && n == 0 {
			got = "accept"
		} else {
			got = c19Classify(false, err)
		}
		if got != exp {
			return &ev.Finding{
				Sig:  fmt.Sprintf("Reader expected=%s got=%s bscode=%d sizebit=%v one-byte-source=%v reused=%v", exp, got, int(k.Desc>>12)&7, k.Desc&8 != 0, k.Frag, k.Reuse),
				What: fmt.Sprintf("stream % x", stream), Case: k}
		}
		if exp == "accept" {
			wantSize := uint64(0)
			if k.Desc&8 != 0 {
				wantSize = k.Size
			}
			if uint64(size) != wantSize {
				return &ev.Finding{Sig: fmt.Sprintf("Reader.Size differs from the header field (sizebit=%v reused=%v)", k.Desc&8 != 0, k.Reuse),
					What: fmt.Sprintf("want %d got %d", wantSize, size), Case: k}
			}
		}
	case "word":
		w := k.Word
		in := []byte{byte(w), byte(w >> 8), byte(w >> 16), byte(w >> 24)}
		var ok bool
		var err error
		if p, msg := ev.Try(func() { ok, err = lz4.ValidFrameHeader(in) }); p {
			return &ev.Finding{Sig: "vfh panic on word", What: msg, Case: k}
		}
		if ok || err != nil {
			cls := "other"
			if w>>8 == 0x184D2A {
				cls = "0x184D2Axx outside 50..5F"
			}
			return &ev.Finding{Sig: fmt.Sprintf("non-magic first word not reported as (false,nil): class=%s", cls),
				What: fmt.Sprintf("word %#x → (%v,%v)", w, ok, err), Case: k}
		}
	}
	return nil
}

func init() {
	ev.Register(&ev.Driver{
		Prop:  "C19",
		Level: "exploration",
		Rule: "complete enumeration: ValidFrameHeader on all 2^16 descriptors × 256 checksum bytes (size field present iff FLG bit 3, size 0) " +
			"plus 7 further size values × {correct, +1, ^0x80} checksum bytes; Reader on descriptor × {correct,+1,^0x80} × size values; " +
			"all first words 0x184D0000|x and 0x184C0000|x that are not a magic. Every case is distinct by construction; non-trivial = " +
			"cases whose expected verdict is accept or bad-block-size (i.e. the checksum byte is the correct one) plus one wrong-checksum case per descriptor.",
		Assumptions: []string{"reference XXH32 (ref.XXH32) is correct (validated against published vectors in setup)",
			"version, reserved and dictionary-id bits are not judged: the statement does not name them"},
		Run: func(c *ev.Ctx) {
			c.Flag("exhaustive", true)
			for d := 0; d < 65536; d++ {
				if !c.Mine(int64(d)) {
					continue
				}
				desc := uint16(d)
				_, want := c19Header(desc, 0, 0)
				for h := 0; h < 256; h++ {
					k := c19Case{Kind: "vfh", Desc: desc, H: h}
					c.Eval(1)
					if byte(h) == want || h == int(want^0x80) {
						c.Distinct(1)
					}
					if f := c19Run(k); f != nil {
						c.Confirm(f, func() *ev.Finding { return c19Run(k) })
					}
				}
				sizes := []uint64{0}
				if desc&8 != 0 {
					sizes = c19Sizes
				}
				for _, sz := range sizes {
					_, want := c19Header(desc, sz, 0)
					for _, h := range []byte{want, want + 1, want ^ 0x80} {
						for vi, kind := range []string{"vfh", "reader", "reader", "reader"} {
							if kind == "vfh" && sz == 0 {
								continue // already in the full sweep
							}
							k := c19Case{Kind: kind, Desc: desc, Size: sz, H: int(h), Frag: vi == 2, Reuse: vi == 3}
							if vi >= 2 && h != want && sz != 0 {
								continue // fragmented / reused variants: the correct checksum for every size, wrong ones at size 0
							}
							c.Eval(1)
							c.Distinct(1)
							c.Add(kind+"_cases", 1)
							if f := c19Run(k); f != nil {
								c.Confirm(f, func() *ev.Finding { return c19Run(k) })
							}
						}
					}
				}
				if d == 0x4064 || d == 0x706C {
					c.Sample(map[string]interface{}{"descriptor": fmt.Sprintf("%#04x", d), "correct_hc": want})
				}
			}
			// non-magic first words
			for x := 0; x < 65536; x++ {
				for _, base := range []uint32{0x184D0000, 0x184C0000} {
					w := base | uint32(x)
					if w == ref.MagicFrame || w == ref.MagicLegacy || (w >= ref.MagicSkipLo && w <= ref.MagicSkipHi) {
						continue
					}
					if !c.Next() {
						continue
					}
					k := c19Case{Kind: "word", Word: w}
					c.Eval(1)
					c.Distinct(1)
					c.Add("word_cases", 1)
					if f := c19Run(k); f != nil {
						c.Confirm(f, func() *ev.Finding { return c19Run(k) })
					}
				}
			}
		},
		Replay: func(c *ev.Ctx) {
			var k c19Case
			if err := json.Unmarshal(c.ReplayRaw, &k); err != nil {
				c.Machinery("bad replay: %v", err)
				return
			}
			if f := c19Run(k); f != nil {
				c.Report(f)
			}
		},
	})
}
