// Package ev is the plumbing shared by all checks: sharding over worker processes, counters,
// violation recording with re-execution, known-findings matching, evidence files.
package ev

import (
	"crypto/sha1"
	"encoding/hex"
	"encoding/json"
	"fmt"
	"os"
	"os/exec"
	"path/filepath"
	"regexp"
	"runtime"
	"runtime/debug"
	"runtime/pprof"
	"sort"
	"strconv"
	"strings"
	"sync"
	"sync/atomic"
	"syscall"
	"time"
)

const VerifDir = "/verif"

type Finding struct {
	Sig    string      `json:"sig"`  // normal form used for known-findings matching
	What   string      `json:"what"` // human description
	Case   interface{} `json:"case"` // replayable description
	Count  int64       `json:"count"`
	Replay string      `json:"replay,omitempty"`
}

type Partial struct {
	Evaluations int64                  `json:"evaluations"`
	Distinct    int64                  `json:"distinct"`
	Counters    map[string]int64       `json:"counters"`
	Maxes       map[string]int64       `json:"maxes"`
	Flags       map[string]bool        `json:"flags"` // AND-merged
	Notes       map[string]string      `json:"notes"`
	Samples     []interface{}          `json:"samples"`
	Findings    []*Finding             `json:"findings"`
	Machinery   []string               `json:"machinery"` // machinery errors: exit 2
	Outcomes    map[string]int64       `json:"outcomes"`  // distinct observed outcomes → count
	Extra       map[string]interface{} `json:"extra"`
}

type Ctx struct {
	Prop      string
	Tier      string
	Seed      int64
	Shard     int
	NShards   int
	ReplayRaw json.RawMessage
	Deadline  time.Time // soft deadline for capped searches

	crumb   []byte // MAP_SHARED breadcrumb: the case being executed, survives a fatal crash
	mu      sync.Mutex
	P       Partial
	caseIdx int64
	bySig   map[string]*Finding
}

func NewCtx(prop, tier string, seed int64, shard, nshards int) *Ctx {
	c := &Ctx{Prop: prop, Tier: tier, Seed: seed, Shard: shard, NShards: nshards}
	c.P.Counters = map[string]int64{}
	c.P.Maxes = map[string]int64{}
	c.P.Flags = map[string]bool{}
	c.P.Notes = map[string]string{}
	c.P.Outcomes = map[string]int64{}
	c.P.Extra = map[string]interface{}{}
	c.bySig = map[string]*Finding{}
	return c
}

func (c *Ctx) Thorough() bool { return c.Tier == "thorough" }

// Crumb records the case about to be executed in a file-backed shared mapping, so that the
// parent can attribute a fatal crash of this worker (unrecoverable fault, stack overflow,
// out of memory) to the exact case.
func (c *Ctx) Crumb(parts ...[]byte) {
	if c.crumb == nil {
		return
	}
	n := 4
	for _, p := range parts {
		if n+len(p) > len(c.crumb) {
			break
		}
		n += copy(c.crumb[n:], p)
	}
	n -= 4
	c.crumb[0], c.crumb[1], c.crumb[2], c.crumb[3] = byte(n), byte(n>>8), byte(n>>16), byte(n>>24)
}

func (c *Ctx) openCrumb(path string) {
	f, err := os.OpenFile(path, os.O_RDWR|os.O_CREATE|os.O_TRUNC, 0o644)
	if err != nil {
		return
	}
	defer f.Close()
	const size = 1 << 20
	if f.Truncate(size) != nil {
		return
	}
	m, err := syscall.Mmap(int(f.Fd()), 0, size, syscall.PROT_READ|syscall.PROT_WRITE, syscall.MAP_SHARED)
	if err == nil {
		c.crumb = m
	}
}

func readCrumb(path string) []byte {
	raw, err := os.ReadFile(path)
	if err != nil || len(raw) < 4 {
		return nil
	}
	n := int(raw[0]) | int(raw[1])<<8 | int(raw[2])<<16 | int(raw[3])<<24
	if n <= 0 || 4+n > len(raw) {
		return nil
	}
	return raw[4 : 4+n]
}

// Mine tells whether the idx-th unit of work belongs to this shard.
func (c *Ctx) Mine(idx int64) bool {
	return c.NShards <= 1 || int(idx%int64(c.NShards)) == c.Shard
}

// Next returns a running case index and whether this shard owns it.
func (c *Ctx) Next() bool {
	i := c.caseIdx
	c.caseIdx++
	return c.Mine(i)
}

func (c *Ctx) Eval(n int64)          { c.P.Evaluations += n; atomic.AddInt64(&evalTick, n) }
func (c *Ctx) Distinct(n int64)      { c.P.Distinct += n }
func (c *Ctx) Add(k string, n int64) { c.P.Counters[k] += n }
func (c *Ctx) Flag(k string, v bool) { old, ok := c.P.Flags[k]; c.P.Flags[k] = v && (old || !ok) }
func (c *Ctx) Note(k, v string)      { c.P.Notes[k] = v }
func (c *Ctx) Outcome(k string)      { c.P.Outcomes[k]++ }
func (c *Ctx) Max(k string, v int64) {
	if v > c.P.Maxes[k] {
		c.P.Maxes[k] = v
	}
}
func (c *Ctx) Sample(x interface{}) {
	if len(c.P.Samples) < 6 {
		c.P.Samples = append(c.P.Samples, x)
	}
}
func (c *Ctx) Machinery(format string, a ...interface{}) {
	c.P.Machinery = append(c.P.Machinery, fmt.Sprintf(format, a...))
}

// Report records a finding (already confirmed by the caller, see Confirm).
func (c *Ctx) Report(f *Finding) {
	c.mu.Lock()
	defer c.mu.Unlock()
	if old, ok := c.bySig[f.Sig]; ok {
		old.Count++
		return
	}
	f.Count = 1
	c.bySig[f.Sig] = f
	c.P.Findings = append(c.P.Findings, f)
}

// Confirm re-executes run five times and reports the finding only when it reproduces with
// the same signature every time; otherwise it records a machinery error.
func (c *Ctx) Confirm(f *Finding, run func() *Finding) {
	if f == nil {
		return
	}
	if _, ok := c.bySig[f.Sig]; ok {
		c.bySig[f.Sig].Count++
		return
	}
	for i := 0; i < 5; i++ {
		g := run()
		if g == nil || g.Sig != f.Sig {
			got := "<no finding>"
			if g != nil {
				got = g.Sig
			}
			if CurFlavour != "sched" {
				// outside the controlled scheduler the library's sync.Pool reuse (and its goroutines)
				// are real: a failure that depends on which buffer a pool hands out is still a
				// failure of the code under test, observed once
				f.Sig += " [not on every re-run: depends on buffer-pool reuse or timing the harness does not control in this flavour]"
				c.Report(f)
				return
			}
			c.Machinery("non-deterministic verdict: first %q then %q", f.Sig, got)
			return
		}
	}
	c.Report(f)
}

// defaultStall: the stream-level checks complete a case every few milliseconds (seconds for the
// largest inputs; 150 s when one of their own per-case watchdogs expires). A worker of theirs in
// which nothing completes for ten minutes is blocked inside the library — typically a concurrent
// Writer whose Close never returns — and must not keep the check from ending.
var defaultStall = map[string]int{"C02": 600, "C05": 600, "C06": 600, "C07": 600, "C09": 600, "C14": 600, "C15": 600, "C16": 600, "C18": 600}

// evalTick counts completed cases for the stall watchdog (Driver.StallSeconds).
var evalTick int64

// stallWatch ends a worker in which no case completed for the given time although every case of
// the driver takes microseconds: a call into the library does not return. The parent attributes
// exit code 68 to the case in the breadcrumb.
func stallWatch(seconds int) {
	last, since := int64(-1), time.Now()
	for {
		time.Sleep(2 * time.Second)
		if now := atomic.LoadInt64(&evalTick); now != last {
			last, since = now, time.Now()
			continue
		}
		if time.Since(since) > time.Duration(seconds)*time.Second {
			fmt.Fprintf(os.Stderr, "verif: stalled: no case completed for %d s (a call into the library does not return)\n", seconds)
			os.Exit(68)
		}
	}
}

// CurFlavour is the build flavour of the running binary (set by Main).
var CurFlavour = "plain"

// ConfirmFree is Confirm for cases that involve free-running goroutines (real concurrency in
// flavour plain): the observed violation is a fact about one real execution, so when it does not
// reproduce it is still reported, marked as schedule-dependent, instead of being taken for a
// machinery fault. Deterministic cases must use Confirm.
func (c *Ctx) ConfirmFree(f *Finding, free bool, run func() *Finding) {
	if f == nil {
		return
	}
	if !free {
		c.Confirm(f, run)
		return
	}
	if _, ok := c.bySig[f.Sig]; ok {
		c.bySig[f.Sig].Count++
		return
	}
	for i := 0; i < 5; i++ {
		if g := run(); g == nil || g.Sig != f.Sig {
			f.Sig += " [schedule-dependent: observed in a free-running concurrent execution, not on every re-run]"
			break
		}
	}
	c.Report(f)
}

// Try runs fn and converts a panic into a finding signature prefix.
func Try(fn func()) (panicked bool, msg string) {
	defer func() {
		if r := recover(); r != nil {
			panicked = true
			msg = fmt.Sprint(r)
			if len(msg) > 200 {
				msg = msg[:200]
			}
		}
	}()
	fn()
	return
}

// ---- known findings ------------------------------------------------------------------------

type Known struct {
	Property  string `json:"property"`
	Status    string `json:"status"` // "known" | "fixed"
	Signature string `json:"signature"`
	What      string `json:"what"`
	Commit    string `json:"commit,omitempty"`
}

func loadKnown() []Known {
	var ks []Known
	raw, err := os.ReadFile(filepath.Join(VerifDir, "known_findings.json"))
	if err != nil {
		return nil
	}
	if err := json.Unmarshal(raw, &ks); err != nil {
		fmt.Fprintln(os.Stderr, "known_findings.json:", err)
		os.Exit(2)
	}
	return ks
}

// ---- driver registry and main ----------------------------------------------------------------

type Driver struct {
	Prop        string
	Level       string // evidence level
	Rule        string
	Assumptions []string
	Run         func(c *Ctx)
	Replay      func(c *Ctx) // re-executes c.ReplayRaw, reporting through c
	// Finalize lets the parent add level-specific keys to coverage after merging.
	Finalize func(cov map[string]interface{}, p *Partial)
	Shards   func(tier string) int // default: NumCPU
	// Alt lists further build flavours (noasm, sched, race) whose binaries run the same
	// driver over the same shards; the binary path comes from env VERIF_BIN_<FLAVOUR>.
	Alt []string
	// Post runs in the parent after merging; it may report findings or machinery errors.
	Post func(c *Ctx)
	// ReplayIn names the flavour whose binary must execute replays (e.g. "sched").
	ReplayIn string
	// ReplayInIf, when set, restricts ReplayIn to the replay files for which it returns true.
	ReplayInIf func(raw []byte) bool
	// StallSeconds > 0: every case of this driver takes far less than a second; a worker in which no
	// case completes for that long is stopped (exit 68) and the case in its breadcrumb is blamed.
	StallSeconds int
	// Crash turns the breadcrumb of a worker that died into a finding (nil: machinery error).
	Crash func(crumb []byte, stderrTail string) *Finding
}

var drivers = map[string]*Driver{}

func Register(d *Driver) { drivers[d.Prop] = d }

func envInt(k string, def int64) int64 {
	if v := os.Getenv(k); v != "" {
		if n, err := strconv.ParseInt(v, 10, 64); err == nil {
			return n
		}
	}
	return def
}

// Main is the entry point of the vrun binary.
//
//	vrun <prop>                      parent: shards, merges, writes evidence, prints verdict
//	vrun <prop> -replay <file>       re-executes one recorded case
//	(internal) VERIF_SHARD=i/N VERIF_PARTIAL=<file> vrun <prop>
func Main(flavour string) {
	CurFlavour = flavour
	debug.SetPanicOnFault(true)
	if len(os.Args) < 2 {
		fmt.Fprintln(os.Stderr, "usage: vrun <property> [-replay file]")
		os.Exit(2)
	}
	prop := os.Args[1]
	d := drivers[prop]
	if d == nil {
		fmt.Fprintf(os.Stderr, "vrun(%s): no driver for %s\n", flavour, prop)
		os.Exit(2)
	}
	tier := os.Getenv("VERIF_TIER")
	if tier != "thorough" {
		tier = "quick"
	}
	seed := envInt("VERIF_SEED", 1)
	if len(os.Args) >= 4 && os.Args[2] == "-replay" {
		needAlt := d.ReplayIn != "" && d.ReplayIn != flavour
		if needAlt && d.ReplayInIf != nil {
			raw, _ := os.ReadFile(os.Args[3])
			needAlt = d.ReplayInIf(raw)
		}
		if needAlt {
			bin := os.Getenv("VERIF_BIN_" + strings.ToUpper(d.ReplayIn))
			cmd := exec.Command(bin, os.Args[1:]...)
			cmd.Stdout, cmd.Stderr = os.Stdout, os.Stderr
			if err := cmd.Run(); err != nil {
				if ee, ok := err.(*exec.ExitError); ok {
					os.Exit(ee.ExitCode())
				}
				fmt.Fprintln(os.Stderr, err)
				os.Exit(2)
			}
			os.Exit(0)
		}
		os.Exit(replayMain(d, tier, seed, os.Args[3]))
	}
	if sh := os.Getenv("VERIF_SHARD"); sh != "" {
		var i, n int
		fmt.Sscanf(sh, "%d/%d", &i, &n)
		c := NewCtx(prop, tier, seed, i, n)
		if os.Getenv("VERIF_DEADLINE_S") == "" {
			// internal soft cap for capped searches: quick 4 min, thorough 40 min per worker
			if tier == "thorough" {
				c.Deadline = time.Now().Add(40 * time.Minute)
			} else {
				c.Deadline = time.Now().Add(4 * time.Minute)
			}
		}
		if s := envInt("VERIF_DEADLINE_S", 0); s > 0 {
			c.Deadline = time.Now().Add(time.Duration(s) * time.Second)
		}
		c.openCrumb(os.Getenv("VERIF_PARTIAL") + ".crumb")
		go memoryWatch(flavour)
		stall := d.StallSeconds
		if stall == 0 {
			stall = defaultStall[prop]
		}
		if stall > 0 {
			go stallWatch(stall)
		}
		if pf := os.Getenv("VERIF_CPUPROFILE"); pf != "" {
			f, _ := os.Create(pf)
			pprof.StartCPUProfile(f)
			defer pprof.StopCPUProfile()
		}
		d.Run(c)
		c.Crumb() // clear
		raw, _ := json.Marshal(&c.P)
		if err := os.WriteFile(os.Getenv("VERIF_PARTIAL"), raw, 0o644); err != nil {
			fmt.Fprintln(os.Stderr, err)
			os.Exit(2)
		}
		return
	}
	os.Exit(parentMain(d, flavour, tier, seed))
}

func replayMain(d *Driver, tier string, seed int64, file string) int {
	raw, err := os.ReadFile(file)
	if err != nil {
		fmt.Fprintln(os.Stderr, err)
		return 2
	}
	var f Finding
	if err := json.Unmarshal(raw, &f); err != nil {
		fmt.Fprintln(os.Stderr, err)
		return 2
	}
	if d.Replay == nil {
		fmt.Fprintln(os.Stderr, "no replay for", d.Prop)
		return 2
	}
	var sigs []string
	for i := 0; i < 2; i++ {
		c := NewCtx(d.Prop, tier, seed, 0, 1)
		c.ReplayRaw, _ = json.Marshal(f.Case)
		d.Replay(c)
		var s []string
		for _, g := range c.P.Findings {
			s = append(s, g.Sig)
		}
		sort.Strings(s)
		sigs = append(sigs, strings.Join(s, "\n"))
		for _, m := range c.P.Machinery {
			fmt.Println("MACHINERY:", m)
		}
	}
	if sigs[0] != sigs[1] {
		fmt.Println("replay is not deterministic:\n", sigs[0], "\n--\n", sigs[1])
		return 2
	}
	if sigs[0] == "" {
		fmt.Printf("replay: no violation (recorded: %s)\n", f.Sig)
		return 0
	}
	fmt.Printf("replay: reproduced\n%s\n", sigs[0])
	fmt.Printf("VIOLATION property=%s replay=%s\n", d.Prop, file)
	return 1
}

func parentMain(d *Driver, flavour, tier string, seed int64) int {
	start := time.Now()
	n := runtime.NumCPU()
	if d.Shards != nil {
		n = d.Shards(tier)
	}
	if v := envInt("VERIF_SHARDS", 0); v > 0 {
		n = int(v)
	}
	tmp, err := os.MkdirTemp(filepath.Join(VerifDir, ".build"), "part-")
	if err != nil {
		fmt.Fprintln(os.Stderr, err)
		return 2
	}
	defer os.RemoveAll(tmp)
	type res struct {
		i    int
		err  error
		tail string
	}
	bins := []string{os.Args[0]}
	for _, a := range d.Alt {
		b := os.Getenv("VERIF_BIN_" + strings.ToUpper(a))
		if b == "" {
			fmt.Fprintf(os.Stderr, "flavour %s binary not provided (VERIF_BIN_%s)\n", a, strings.ToUpper(a))
			return 2
		}
		bins = append(bins, b)
	}
	total := n * len(bins)
	ch := make(chan res, total)
	sem := make(chan struct{}, runtime.NumCPU())
	for bi, bin := range bins {
		for i := 0; i < n; i++ {
			go func(bi int, bin string, i int) {
				sem <- struct{}{}
				defer func() { <-sem }()
				id := bi*n + i
				cmd := exec.Command(bin, d.Prop)
				cmd.Env = append(os.Environ(),
					fmt.Sprintf("VERIF_SHARD=%d/%d", i, n),
					"VERIF_PARTIAL="+filepath.Join(tmp, fmt.Sprintf("p%d.json", id)),
					"VERIF_TIER="+tier,
					"GOMAXPROCS=2",
					"GORACE=halt_on_error=1 exitcode=66",
				)
				out, err := cmd.CombinedOutput()
				t := string(out)
				if len(t) > 8000 {
					t = t[:4000] + "\n...\n" + t[len(t)-4000:]
				}
				ch <- res{id, err, t}
			}(bi, bin, i)
		}
	}
	merged := NewCtx(d.Prop, tier, seed, 0, 1)
	bad := 0
	for k := 0; k < total; k++ {
		r := <-ch
		if r.err != nil {
			crumb := readCrumb(filepath.Join(tmp, fmt.Sprintf("p%d.json.crumb", r.i)))
			if crumb != nil && d.Crash != nil {
				if f := d.Crash(crumb, r.tail); f != nil {
					merged.Report(f)
					merged.Flag("exhaustive", false)
					merged.P.Counters["workers_crashed"]++
					continue
				}
			}
			if strings.Contains(r.tail, "WARNING: DATA RACE") {
				// the free-running -race pass: the Go race detector has no false positives
				rep := r.tail[strings.Index(r.tail, "WARNING: DATA RACE"):]
				merged.Report(&Finding{Sig: "data race reported by the Go race detector: " + raceSites(rep), What: rep[:minInt(len(rep), 600)], Case: map[string]string{"report": rep[:minInt(len(rep), 3000)]}, Count: 1})
				merged.P.Counters["race_reports"]++
				continue
			}
			if ee, ok := r.err.(*exec.ExitError); ok && ee.ExitCode() == 68 {
				cs := map[string]string{"stderr": r.tail[:minInt(len(r.tail), 600)]}
				if crumb != nil {
					cs["case"] = string(crumb[:minInt(len(crumb), 4000)])
				}
				merged.Report(&Finding{Sig: "a call into the library does not return (no case completed in the worker for the stall limit)", What: strings.TrimSpace(r.tail[:minInt(len(r.tail), 200)]), Case: cs, Count: 1})
				merged.Flag("exhaustive", false)
				merged.P.Counters["workers_crashed"]++
				continue
			}
			if ee, ok := r.err.(*exec.ExitError); ok && ee.ExitCode() == 67 {
				cs := map[string]string{"stderr": r.tail[:minInt(len(r.tail), 600)]}
				if crumb != nil {
					cs["case"] = string(crumb[:minInt(len(crumb), 4000)])
				}
				merged.Report(&Finding{Sig: "a call into the library allocates without end (worker stopped above its memory limit)", What: strings.TrimSpace(r.tail[:minInt(len(r.tail), 200)]), Case: cs, Count: 1})
				merged.Flag("exhaustive", false)
				merged.P.Counters["workers_crashed"]++
				continue
			}
			if f := libraryCrash(r.tail); f != nil {
				// an unrecovered panic or fatal error whose stack is inside the library (typically in a
				// goroutine the library started, which no caller can recover): a violation, not a
				// machinery fault
				merged.Report(f)
				merged.Flag("exhaustive", false)
				merged.P.Counters["workers_crashed"]++
				continue
			}
			fmt.Fprintf(os.Stderr, "worker %d failed: %v\n%s\n", r.i, r.err, r.tail)
			bad++
			continue
		}
		if strings.TrimSpace(r.tail) != "" && os.Getenv("VERIF_VERBOSE") != "" {
			fmt.Fprintf(os.Stderr, "worker %d: %s\n", r.i, r.tail)
		}
		raw, err := os.ReadFile(filepath.Join(tmp, fmt.Sprintf("p%d.json", r.i)))
		if err != nil {
			fmt.Fprintln(os.Stderr, err)
			bad++
			continue
		}
		var p Partial
		if err := json.Unmarshal(raw, &p); err != nil {
			fmt.Fprintln(os.Stderr, err)
			bad++
			continue
		}
		merge(merged, &p)
	}
	if bad > 0 {
		fmt.Fprintf(os.Stderr, "%d worker(s) failed: machinery error\n", bad)
		if len(merged.P.Findings) == 0 {
			return 2
		}
		// other workers did report violations (typically the same runaway that exhausted the failed
		// workers' memory): they are reported; the run is neither exhaustive nor ever a pass
		merged.Flag("exhaustive", false)
		merged.P.Counters["workers_failed"] += int64(bad)
		if rc := finish(d, merged, flavour, time.Since(start)); rc != 0 {
			return rc
		}
		return 2
	}
	if d.Post != nil {
		d.Post(merged)
	}
	return finish(d, merged, flavour, time.Since(start))
}

// memoryWatch ends a worker whose resident memory grows far beyond anything a case needs (the
// largest worker of any check stays below 1 GiB on the unchanged tree): the sandbox has no memory
// limit, and a loop that allocates without end would otherwise take the machine down. The parent
// turns exit code 67 into a violation attributed to the case in the breadcrumb.
func memoryWatch(flavour string) {
	limit := int64(6 << 30)
	if flavour == "race" {
		limit = 24 << 30
	}
	page := int64(os.Getpagesize())
	for {
		time.Sleep(500 * time.Millisecond)
		raw, err := os.ReadFile("/proc/self/statm")
		if err != nil {
			return
		}
		var size, rss int64
		fmt.Sscanf(string(raw), "%d %d", &size, &rss)
		if rss*page > limit {
			fmt.Fprintf(os.Stderr, "verif: resident memory %d MiB exceeds the worker limit (runaway allocation)\n", rss*page>>20)
			os.Exit(67)
		}
	}
}

// libraryCrash recognises a worker that died of a panic / fatal error raised inside the library
// under test: the panicking goroutine's stack (up to the first blank line) mentions the library
// and no harness frame comes before it.
func libraryCrash(out string) *Finding {
	i := strings.Index(out, "panic: ")
	j := strings.Index(out, "fatal error: ")
	if i < 0 || (j >= 0 && j < i) {
		i = j
	}
	if i < 0 {
		return nil
	}
	rest := out[i:]
	first := rest
	if k := strings.Index(first, "\n"); k > 0 {
		first = first[:k]
	}
	// the first goroutine block after the message
	blk := rest
	if k := strings.Index(blk, "\ngoroutine "); k >= 0 {
		blk = blk[k+1:]
		if e := strings.Index(blk, "\n\n"); e > 0 {
			blk = blk[:e]
		}
	}
	lib := strings.Index(blk, "github.com/pierrec/lz4/v4")
	if lib >= 0 && strings.Contains(first, "(runaway)") {
		// raised by a harness sink/source whose call budget (far above what any case needs) was
		// exhausted by a library goroutine: the library loops without advancing
		return &Finding{Sig: "the library calls the sink or source without end (runaway loop in a library goroutine)", What: first, Case: map[string]string{"stderr": rest[:minInt(len(rest), 1500)]}, Count: 1}
	}
	if lib < 0 || strings.Contains(blk[:lib], "verif/harness/") {
		return nil
	}
	if strings.Contains(blk[lib:lib+60], "/verifsched") && !strings.Contains(blk, "lz4/v4.") && !strings.Contains(blk, "lz4/v4/internal") {
		return nil // scheduler shim only
	}
	if len(first) > 90 {
		first = first[:90]
	}
	// drop addresses/ranges so that the signature is stable
	sig := regexp.MustCompile(`[0-9]+`).ReplaceAllString(first, "N")
	return &Finding{Sig: "the library crashes the process (unrecovered in a library goroutine): " + sig, What: first, Case: map[string]string{"stderr": rest[:minInt(len(rest), 1500)]}, Count: 1}
}

// raceSites extracts the two conflicting access sites (file:line inside the library) of a race
// report as a stable signature.
func raceSites(rep string) string {
	var sites []string
	for _, l := range strings.Split(rep, "\n") {
		l = strings.TrimSpace(l)
		if strings.HasPrefix(l, "/") && strings.Contains(l, ".go:") && !strings.Contains(l, "/verif/harness/") && !strings.Contains(l, "/usr/") && !strings.Contains(l, "/opt/") {
			f := l
			if i := strings.Index(f, " "); i > 0 {
				f = f[:i]
			}
			if i := strings.LastIndex(f, "/"); i >= 0 {
				f = f[i+1:]
			}
			dup := false
			for _, s := range sites {
				if s == f {
					dup = true
				}
			}
			if !dup {
				sites = append(sites, f)
			}
			if len(sites) == 2 {
				break
			}
		}
	}
	return strings.Join(sites, " / ")
}

func minInt(a, b int) int {
	if a < b {
		return a
	}
	return b
}

func merge(c *Ctx, p *Partial) {
	c.P.Evaluations += p.Evaluations
	c.P.Distinct += p.Distinct
	for k, v := range p.Counters {
		c.P.Counters[k] += v
	}
	for k, v := range p.Maxes {
		if v > c.P.Maxes[k] {
			c.P.Maxes[k] = v
		}
	}
	for k, v := range p.Flags {
		c.Flag(k, v)
	}
	for k, v := range p.Notes {
		c.P.Notes[k] = v
	}
	for k, v := range p.Outcomes {
		c.P.Outcomes[k] += v
	}
	for k, v := range p.Extra {
		c.P.Extra[k] = v
	}
	for _, s := range p.Samples {
		c.Sample(s)
	}
	c.P.Machinery = append(c.P.Machinery, p.Machinery...)
	for _, f := range p.Findings {
		if old, ok := c.bySig[f.Sig]; ok {
			old.Count += f.Count
			continue
		}
		c.bySig[f.Sig] = f
		c.P.Findings = append(c.P.Findings, f)
	}
}

func finish(d *Driver, c *Ctx, flavour string, wall time.Duration) int {
	known := loadKnown()
	sort.Slice(c.P.Findings, func(i, j int) bool { return c.P.Findings[i].Sig < c.P.Findings[j].Sig })
	var fresh, listed []*Finding
	for _, f := range c.P.Findings {
		isKnown := false
		for _, k := range known {
			if k.Property == d.Prop && k.Status == "known" && k.Signature == f.Sig {
				isKnown = true
			}
		}
		if isKnown {
			listed = append(listed, f)
		} else {
			fresh = append(fresh, f)
		}
	}
	// replay artefacts
	rdir := filepath.Join(VerifDir, "replays", d.Prop)
	for _, f := range fresh {
		os.MkdirAll(rdir, 0o755)
		h := sha1.Sum([]byte(f.Sig))
		f.Replay = filepath.Join(rdir, hex.EncodeToString(h[:6])+".json")
		raw, _ := json.MarshalIndent(f, "", " ")
		os.WriteFile(f.Replay, raw, 0o644)
	}
	cov := map[string]interface{}{
		"evaluations":         c.P.Evaluations,
		"distinct_nontrivial": c.P.Distinct,
		"rule":                d.Rule,
		"samples":             c.P.Samples,
		"counters":            c.P.Counters,
		"flavour":             flavour,
	}
	if len(c.P.Maxes) > 0 {
		cov["maxima"] = c.P.Maxes
	}
	if len(c.P.Notes) > 0 {
		cov["notes"] = c.P.Notes
	}
	for k, v := range c.P.Flags {
		cov[k] = v
	}
	if len(c.P.Outcomes) > 0 {
		cov["distinct_outcomes"] = len(c.P.Outcomes)
		if len(c.P.Outcomes) <= 40 {
			cov["outcomes"] = c.P.Outcomes
		}
	}
	for k, v := range c.P.Extra {
		cov[k] = v
	}
	if len(c.P.Samples) == 0 {
		cov["samples"] = []interface{}{"(none recorded)"}
	}
	if d.Finalize != nil {
		d.Finalize(cov, &c.P)
	}
	var kf []string
	for _, f := range listed {
		kf = append(kf, f.Sig)
	}
	if len(kf) > 0 {
		cov["known_findings_seen"] = kf
	}
	evd := map[string]interface{}{
		"property_id": d.Prop,
		"tier":        c.Tier,
		"seed":        c.Seed,
		"level":       d.Level,
		"coverage":    cov,
		"assumptions": d.Assumptions,
		"wall_s":      float64(int(wall.Seconds()*100)) / 100,
		"violations":  len(fresh),
	}
	raw, _ := json.MarshalIndent(evd, "", " ")
	os.MkdirAll(filepath.Join(VerifDir, "evidence"), 0o755)
	if err := os.WriteFile(filepath.Join(VerifDir, "evidence", d.Prop+".json"), raw, 0o644); err != nil {
		fmt.Fprintln(os.Stderr, err)
		return 2
	}
	fmt.Printf("%s tier=%s flavour=%s evaluations=%d distinct_nontrivial=%d wall=%.1fs\n", d.Prop, c.Tier, flavour, c.P.Evaluations, c.P.Distinct, wall.Seconds())
	keys := make([]string, 0, len(c.P.Counters))
	for k := range c.P.Counters {
		keys = append(keys, k)
	}
	sort.Strings(keys)
	for _, k := range keys {
		fmt.Printf("  %s=%d\n", k, c.P.Counters[k])
	}
	for _, f := range listed {
		fmt.Printf("KNOWN-FINDING: property=%s %s (x%d)\n", d.Prop, f.Sig, f.Count)
	}
	if len(c.P.Machinery) > 0 {
		for i, m := range c.P.Machinery {
			if i < 10 {
				fmt.Fprintln(os.Stderr, "MACHINERY:", m)
			}
		}
		return 2
	}
	for _, f := range fresh {
		fmt.Printf("  finding: %s — %s (x%d)\n", f.Sig, f.What, f.Count)
		fmt.Printf("VIOLATION property=%s replay=%s\n", d.Prop, f.Replay)
	}
	if len(fresh) > 0 {
		return 1
	}
	return 0
}
