//go:build verif

package xxh32

// VerifSetState puts the hasher into an arbitrary (non-initial) state so that the explorer can
// start from totals just below 2^32 without hashing 4 GiB.
func (xxh *XXHZero) VerifSetState(v [4]uint32, total uint64, buf []byte) {
	xxh.v = v
	xxh.totalLen = total
	xxh.bufused = copy(xxh.buf[:], buf)
}

// VerifState exposes the private state for canonicalisation.
func (xxh *XXHZero) VerifState() (v [4]uint32, total uint64, buf []byte) {
	return xxh.v, xxh.totalLen, append([]byte(nil), xxh.buf[:xxh.bufused]...)
}
