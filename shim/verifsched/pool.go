//go:build verif && go1.18

package verifsched

// Pool replaces sync.Pool: a deterministic LIFO stack (maximal aliasing), reset at the start
// of every controlled run. Byte buffers are filled with a poison pattern on Put and checked on
// Get: a damaged pattern means somebody wrote to a buffer after releasing it; a reader of a
// released buffer sees poison, which the content oracles catch.
type Pool struct {
	New   func() interface{}
	stack []interface{}
	ids   []uint64 // identities of the stacked objects (for state keys)
	spare []interface{} // objects recycled from earlier runs (avoids re-allocating 64 KiB buffers and 140 KiB compressors per execution)
	reg   bool
}

var poisonPage = func() []byte {
	b := make([]byte, 4096)
	for i := range b {
		b[i] = Poison
	}
	return b
}()

// big buffers (legacy 8 MiB blocks) are poisoned / cleared / audited on their first 64 KiB and
// last 4 KiB only: scenarios keep their payloads tiny, and a full 8 MiB memset per Put would
// dominate the execution time.
const bigBuf = 256 << 10

func regions(b []byte) [][]byte {
	if len(b) <= bigBuf {
		return [][]byte{b}
	}
	return [][]byte{b[:64<<10], b[len(b)-(4<<10):]}
}

func fill(b []byte, v byte) {
	for _, r := range regions(b) {
		fill1(r, v)
	}
}

func fill1(b []byte, v byte) {
	if len(b) == 0 {
		return
	}
	b[0] = v
	for n := 1; n < len(b); n *= 2 {
		copy(b[n:], b[:n])
	}
}

func poisonIntact(b []byte) int {
	base := 0
	for _, r := range regions(b) {
		if i := poisonIntact1(r); i >= 0 {
			return base + i
		}
		base = len(b) - len(r) // offset of the next (last) region; only used for the message
	}
	return -1
}

func poisonIntact1(b []byte) int {
	for off := 0; off < len(b); off += len(poisonPage) {
		end := off + len(poisonPage)
		if end > len(b) {
			end = len(b)
		}
		if string(b[off:end]) != string(poisonPage[:end-off]) {
			for i := off; i < end; i++ {
				if b[i] != Poison {
					return i
				}
			}
		}
	}
	return -1
}

const Poison = 0xDB

var (
	pools        []*Pool
	PoisonBroken []string // reports of write-after-release found by Get in the current run
	PoolGets     int
	PoolReuses   int
)

func resetPools() {
	for _, p := range pools {
		for _, x := range p.stack {
			// a buffer that was released twice sits in the stack twice: recycling both entries would
			// alias two buffers of a later, innocent run
			dup := false
			if b, ok := x.([]byte); ok && cap(b) > 0 {
				for _, y := range p.spare {
					if c, ok := y.([]byte); ok && cap(c) > 0 && &c[:1][0] == &b[:1][0] {
						dup = true
						break
					}
				}
			}
			if !dup && len(p.spare) < 64 {
				p.spare = append(p.spare, x)
			}
		}
		if len(p.spare) > 64 {
			p.spare = p.spare[:64]
		}
		p.stack = nil
		p.ids = nil
	}
	PoisonBroken = nil
	PoolGets, PoolReuses = 0, 0
}

// auditPools checks, at the end of a run, that every buffer still sitting in a pool carries
// intact poison: a write after release is found even if nobody took the buffer out again.
func auditPools() {
	for _, p := range pools {
		for _, x := range p.stack {
			if b, ok := x.([]byte); ok {
				if i := poisonIntact(b[:cap(b)]); i >= 0 {
					PoisonBroken = append(PoisonBroken, "buffer written after release to the pool (first damaged byte at "+itoa(i)+", found by the end-of-run audit)")
				}
			}
		}
	}
}

func (p *Pool) register() {
	if !p.reg {
		p.reg = true
		pools = append(pools, p)
	}
}

func (p *Pool) Get() interface{} {
	p.register()
	s := cur
	if s != nil {
		if s.aborting {
			if p.New != nil {
				return p.New()
			}
			return nil
		}
		if s.opts.PoolYield {
			s.yield(op{kind: opPoolGet})
		}
	}
	PoolGets++
	Note("pool buffer taken")
	if n := len(p.stack); n > 0 {
		x := p.stack[n-1]
		p.stack = p.stack[:n-1]
		p.ids = p.ids[:n-1]
		PoolReuses++
		if b, ok := x.([]byte); ok {
			b = b[:cap(b)]
			if i := poisonIntact(b); i >= 0 {
				PoisonBroken = append(PoisonBroken, "buffer written after release to the pool (first damaged byte at "+itoa(i)+")")
			}
		}
		return x
	}
	if n := len(p.spare); n > 0 && s != nil {
		x := p.spare[n-1]
		p.spare = p.spare[:n-1]
		if b, ok := x.([]byte); ok {
			fill(b[:cap(b)], 0) // indistinguishable from a freshly allocated buffer
		}
		return x
	}
	if p.New != nil {
		return p.New()
	}
	return nil
}

func (p *Pool) Put(x interface{}) {
	p.register()
	s := cur
	if s != nil {
		if s.aborting {
			return
		}
		if s.opts.PoolYield {
			s.yield(op{kind: opPoolPut})
		}
	}
	Note("pool buffer released")
	if b, ok := x.([]byte); ok {
		b = b[:cap(b)]
		fill(b, Poison)
		// double release
		for _, y := range p.stack {
			if c, ok := y.([]byte); ok && len(c) > 0 && len(b) > 0 && &c[:1][0] == &b[:1][0] {
				PoisonBroken = append(PoisonBroken, "buffer released to the pool twice")
			}
		}
	}
	p.stack = append(p.stack, x)
	var id uint64
	if s != nil && s.cur != nil {
		s.cur.events++
		id = mix(mix(s.cur.name, s.cur.events), 0xB0)
	}
	p.ids = append(p.ids, id)
}

func itoa(i int) string {
	if i == 0 {
		return "0"
	}
	var b [20]byte
	n := len(b)
	for i > 0 {
		n--
		b[n] = byte('0' + i%10)
		i /= 10
	}
	return string(b[n:])
}
