//go:build verif && go1.18

// Package verifsched is a controlled cooperative scheduler: every goroutine of the code under
// test runs only while it holds the baton, every visible operation (channel send/receive/
// close, mutex lock, pool get/put, spawn, explicit Yield) is a scheduling point, and the
// choice of the next thread is dictated by a choice sequence supplied by the explorer.
// It exists only in verification builds (overlay), never in the shipped module.
package verifsched

import (
	"fmt"
	"runtime"
	"sync"
	"sync/atomic"
	"time"
)

type opKind uint8

const (
	opResume opKind = iota // always enabled: just continue
	opStart
	opSend
	opRecv
	opClose
	opLock
	opRLock
	opWait
	opPoolGet
	opPoolPut
	opYield
)

var opNames = [...]string{"resume", "start", "send", "recv", "close", "lock", "rlock", "wait", "pool.get", "pool.put", "yield"}

type op struct {
	kind  opKind
	ch    *chanCore
	mu    *Mutex
	wg    *WaitGroup
	val   interface{}
	valID uint64
	note  string
}

func mix(h, v uint64) uint64 {
	h ^= v
	h *= 1099511628211
	h ^= h >> 29
	return h
}

type thread struct {
	id      int
	site    string
	wake    chan struct{}
	pending op
	done    bool
	// hand-off slots
	handed  bool // a partner completed this thread's pending channel op
	recvVal interface{}
	recvID  uint64
	recvOK  bool
	nops    int
	// identity and observation history (for state keys)
	name   uint64 // hash of (parent name, child index): independent of global spawn order
	nchild int
	events uint64 // visible operations completed by this thread
	hist   uint64 // hash of everything this thread has observed through shims
}

// Point is one choice point of an execution.
type Point struct {
	N              int  // number of enabled threads (>= 2)
	RunningEnabled bool // the thread that was running is among them (it is index 0 then)
	Chosen         int
}

type Blocked struct {
	Thread int
	Site   string
	Op     string
}

// Execution is what one controlled run produced.
type Execution struct {
	Points       []Point
	Verdict      string // "" (all threads finished), "deadlock", "leak", "runaway", "panic"
	PanicMsg     string
	Blocked      []Blocked
	Steps        int
	Threads      int
	Concurrent   bool   // at some point >= 2 threads were enabled
	TraceHash    uint64 // hash of the sequence of executed visible operations
	MainFinished bool
	// AliveAtMainExit lists the spawn sites of threads that had not finished when thread 0
	// returned (they may still finish on their own; those that never do are a "leak").
	AliveAtMainExit []string
	// AfterMain lists what library goroutines still did after thread 0 had returned that is
	// observable outside the library: user callbacks, calls on the user's sink/source, pool
	// buffers taken or released. (A goroutine that merely returns, or closes an internal
	// channel, does not count.)
	AfterMain []string
}

type Sched struct {
	threads  []*thread // every thread ever created (ids)
	live     []*thread // threads that have not finished: what the scheduler iterates over
	progress uint64    // scheduling decisions taken (atomic; read by the watchdog in Run)
	cur      *thread
	prefix   []int
	x        *Execution
	aborting bool
	wg       sync.WaitGroup
	finished chan struct{}
	nchan    int
	budget   int
	opts     Options
	chans    []*chanCore
	mutexes  []*Mutex
	preempt  int
}

type Options struct {
	MaxSteps  int  // visible-operation budget per execution (default 100000)
	PoolYield bool // pool Get/Put are scheduling points
	// Visit, when set, is called at every choice point beyond the replayed prefix with a key of
	// the global state and the number of preemptions used so far; returning false prunes the
	// execution (Verdict "pruned").
	Visit func(key uint64, preemptions int) bool
	// StateHook contributes harness-side shared state (sink digest, observation log) to the key.
	StateHook func() uint64
}

// cur is the active scheduler; nil outside a controlled run. Only the baton holder touches it.
var cur *Sched

// Active reports whether a controlled run is in progress.
func Active() bool { return cur != nil }

var abortSentinel = new(int)

// Run executes body as thread 0 under the scheduler, replaying prefix at the first
// len(prefix) choice points and taking choice 0 afterwards. An out-of-range prefix entry
// is reported through Verdict "bad-prefix".
func Run(prefix []int, opts Options, body func()) *Execution {
	if cur != nil {
		panic("verifsched: nested Run")
	}
	if opts.MaxSteps == 0 {
		opts.MaxSteps = 100000
	}
	s := &Sched{prefix: prefix, x: &Execution{TraceHash: 1469598103934665603}, finished: make(chan struct{}), opts: opts}
	resetPools()
	cur = s
	t := s.newThread("main")
	s.cur = t
	s.startGoroutine(t, body)
	t.wake <- struct{}{}
	last := uint64(0)
wait:
	for {
		select {
		case <-s.finished:
			break wait
		case <-time.After(20 * time.Second):
		}
		if now := atomic.LoadUint64(&s.progress); now != last {
			last = now // still making scheduling decisions (a slow or heavily loaded machine): keep waiting
			continue
		}
		// scheduler bug (baton lost): report the state and fail loudly, never hang
		msg := "verifsched: baton lost;"
		for _, th := range s.threads {
			msg += fmt.Sprintf(" [%d %s done=%v handed=%v pending=%s]", th.id, th.site, th.done, th.handed, th.pending.describe())
		}
		panic(msg + fmt.Sprintf(" cur=%d aborting=%v verdict=%q steps=%d", s.cur.id, s.aborting, s.x.Verdict, s.x.Steps))
	}
	s.wg.Wait()
	auditPools()
	cur = nil
	s.x.Threads = len(s.threads)
	return s.x
}

func (s *Sched) newThread(site string) *thread {
	t := &thread{id: len(s.threads), site: site, wake: make(chan struct{}, 1), pending: op{kind: opStart}}
	if p := s.cur; p != nil && len(s.threads) > 0 {
		p.nchild++
		t.name = mix(mix(p.name, uint64(p.nchild)), 0x9E3779B97F4A7C15)
	} else {
		t.name = 0x1234567
	}
	t.hist = t.name
	s.threads = append(s.threads, t)
	s.live = append(s.live, t)
	return t
}

func (s *Sched) startGoroutine(t *thread, fn func()) {
	s.wg.Add(1)
	go func() {
		defer s.wg.Done()
		defer s.threadExit(t)
		<-t.wake
		if s.aborting {
			return
		}
		fn()
	}()
}

func (s *Sched) threadExit(t *thread) {
	if r := recover(); r != nil {
		if !s.aborting {
			s.x.Verdict = "panic"
			s.x.PanicMsg = fmt.Sprintf("thread %d (%s): %v", t.id, t.site, r)
			t.done = true
			s.abortAll(t)
			return
		}
	}
	t.done = true
	for i, th := range s.live {
		if th == t {
			s.live = append(s.live[:i], s.live[i+1:]...)
			break
		}
	}
	if t.id == 0 {
		s.x.MainFinished = true
		for _, th := range s.threads {
			if !th.done {
				s.x.AliveAtMainExit = append(s.x.AliveAtMainExit, th.site)
			}
		}
	}
	if s.aborting {
		return
	}
	next := s.pick(t)
	if next == nil {
		s.conclude(t)
		return
	}
	s.cur = next
	next.wake <- struct{}{}
}

// conclude is called when no thread is enabled.
func (s *Sched) conclude(self *thread) {
	if s.x.Verdict != "" {
		s.abortAll(self)
		return
	}
	alldone := true
	for _, th := range s.threads {
		if !th.done {
			alldone = false
			s.x.Blocked = append(s.x.Blocked, Blocked{th.id, th.site, th.pending.describe()})
		}
	}
	if !alldone {
		if s.x.MainFinished {
			s.x.Verdict = "leak"
		} else {
			s.x.Verdict = "deadlock"
		}
	}
	s.abortAll(self)
}

func (s *Sched) abortAll(self *thread) {
	if s.aborting {
		return
	}
	s.aborting = true
	for _, th := range s.threads {
		if th != self && !th.done {
			select {
			case th.wake <- struct{}{}:
			default:
			}
		}
	}
	close(s.finished)
}

func (o op) describe() string {
	d := opNames[o.kind]
	if o.ch != nil {
		d += fmt.Sprintf(" chan#%d(%s)", o.ch.id, o.ch.site)
	}
	if o.note != "" {
		d += " " + o.note
	}
	return d
}

func (s *Sched) enabled(t *thread) bool {
	if t.done {
		return false
	}
	o := t.pending
	switch o.kind {
	case opSend:
		c := o.ch
		if c == nil {
			return false
		}
		if c.closed || len(c.buf) < c.cap {
			return true
		}
		return s.partner(c, opRecv, t) != nil
	case opRecv:
		if t.handed {
			return true
		}
		c := o.ch
		if c == nil {
			return false
		}
		if len(c.buf) > 0 || c.closed {
			return true
		}
		return s.partner(c, opSend, t) != nil
	case opLock:
		return !o.mu.locked && o.mu.readers == 0
	case opRLock:
		return !o.mu.locked
	case opWait:
		return o.wg.n <= 0
	}
	return true
}

// partner finds the longest-waiting other thread blocked on the complementary operation.
func (s *Sched) partner(c *chanCore, kind opKind, self *thread) *thread {
	var best *thread
	for _, th := range s.live {
		if th == self || th.done || th.handed {
			continue
		}
		if th.pending.kind == kind && th.pending.ch == c {
			if best == nil || th.waitSeq() < best.waitSeq() {
				best = th
			}
		}
	}
	return best
}

func (t *thread) waitSeq() int { return t.nops }

// maxThreads: an execution that creates more threads than any harness body can need is a runaway
// (a loop that never advances its cursor keeps spawning workers); it gets the verdict, not a hang.
const maxThreads = 400

// pick computes the enabled set in canonical order (running thread first if enabled, then
// ascending ids), consults the choice sequence and returns the next thread (nil: none).
func (s *Sched) pick(running *thread) *thread {
	var en []*thread
	runEn := false
	if running != nil && s.enabled(running) {
		en = append(en, running)
		runEn = true
	}
	for _, th := range s.live {
		if th != running && s.enabled(th) {
			en = append(en, th)
		}
	}
	if len(en) == 0 {
		return nil
	}
	s.x.Steps++
	atomic.AddUint64(&s.progress, 1)
	if s.x.Steps > s.opts.MaxSteps || len(s.threads) > maxThreads {
		s.x.Verdict = "runaway"
		return nil
	}
	if Debug {
		ids := ""
		for _, th := range en {
			ids += " " + itoa(th.id) + ":" + th.pending.describe()
		}
		println("  enabled:", ids)
	}
	if len(en) == 1 {
		return en[0]
	}
	s.x.Concurrent = true
	i := len(s.x.Points)
	choice := 0
	if i < len(s.prefix) {
		choice = s.prefix[i]
		if choice < 0 || choice >= len(en) {
			s.x.Verdict = "bad-prefix"
			return nil
		}
	} else if s.opts.Visit != nil {
		if !s.opts.Visit(s.stateKey(running, runEn), s.preempt) {
			s.x.Verdict = "pruned"
			return nil
		}
	}
	if runEn && choice != 0 {
		s.preempt++
	}
	s.x.Points = append(s.x.Points, Point{N: len(en), RunningEnabled: runEn, Chosen: choice})
	return en[choice]
}

var globalSeq int

// yield publishes the pending operation of the calling thread and blocks until the
// scheduler chooses it. On return the operation is enabled (or has been completed by a
// partner: t.handed).
func (s *Sched) yield(o op) *thread {
	t := s.cur
	globalSeq++
	t.nops = globalSeq
	t.pending = o
	next := s.pick(t)
	if next == nil {
		if s.x.Verdict == "" || s.x.Verdict == "deadlock" || s.x.Verdict == "leak" {
			s.conclude(t)
		} else {
			s.abortAll(t)
		}
		runtime.Goexit()
	}
	if next != t {
		s.cur = next
		next.wake <- struct{}{}
		<-t.wake
		if s.aborting {
			runtime.Goexit()
		}
	}
	s.trace(t, o)
	return t
}

// stateKey hashes the global state at a choice point: every thread (by spawn-tree name) with
// its observation history and pending operation, every channel's contents, mutexes, pools,
// the harness-side state and which thread holds the baton. Threads are deterministic functions
// of what they observed through the shims, so equal keys have equal futures.
func (s *Sched) stateKey(running *thread, runEn bool) uint64 {
	var sum uint64 // order-independent combination over threads/channels (they are identified by name)
	for _, th := range s.threads {
		h := mix(th.name, th.hist)
		if th.done {
			h = mix(h, 0xD0)
		} else {
			h = mix(h, uint64(th.pending.kind)+1)
			if th.pending.ch != nil {
				h = mix(h, th.pending.ch.ident)
			}
			h = mix(h, th.pending.valID)
			if th.handed {
				h = mix(h, 0x4A)
				h = mix(h, th.recvID)
			}
			if th.pending.note != "" {
				for i := 0; i < len(th.pending.note); i++ {
					h = mix(h, uint64(th.pending.note[i]))
				}
			}
		}
		sum += h * 0x9E3779B97F4A7C15
	}
	for _, c := range s.chans {
		h := mix(c.ident, uint64(len(c.buf)))
		if c.closed {
			h = mix(h, 0xC1)
		}
		for _, e := range c.ids {
			h = mix(h, e)
		}
		sum += h * 0xC2B2AE3D27D4EB4F
	}
	for i, m := range s.mutexes {
		h := mix(uint64(i)+77, m.version)
		if m.locked {
			h = mix(h, 1)
		}
		sum += h * 0x165667B19E3779F9
	}
	// Pool buffers are interchangeable: a released buffer is poison-filled, write-after-release
	// is found by the end-of-run audit whatever the stack order, read-after-release yields poison
	// or foreign bytes either way. Only the stack depth (hit or miss on Get) enters the key.
	for i, p := range pools {
		sum += mix(uint64(i)+991, uint64(len(p.stack))) * 0x27D4EB2F165667C5
	}
	k := sum
	if running != nil {
		k = mix(k, running.name)
	}
	if runEn {
		k = mix(k, 0xEE)
	}
	if s.opts.StateHook != nil {
		k = mix(k, s.opts.StateHook())
	}
	return k
}

// observe folds an observation into the running thread's history.
func (t *thread) observe(kind opKind, obj, result uint64) {
	t.events++
	t.hist = mix(mix(mix(t.hist, uint64(kind)+1), obj), result)
}

// Observe lets harness-side code (sources, handlers) record what the running thread saw.
func Observe(v uint64) {
	if s := cur; s != nil && s.cur != nil {
		s.cur.observe(opYield, 0, v)
	}
}

var Debug bool

func (s *Sched) trace(t *thread, o op) {
	if Debug {
		println("  step", s.x.Steps, "thread", t.id, t.site, o.describe())
	}
	h := s.x.TraceHash
	mix := func(v uint64) { h = (h ^ v) * 1099511628211 }
	mix(uint64(t.id))
	mix(uint64(o.kind))
	if o.ch != nil {
		mix(uint64(o.ch.id))
	}
	s.x.TraceHash = h
}

// Go spawns fn as a new controlled thread.
func Go(site string, fn func()) {
	s := cur
	if s == nil {
		panic("verifsched.Go outside a controlled run (" + site + ")")
	}
	if s.aborting {
		return
	}
	t := s.newThread(site)
	s.startGoroutine(t, fn)
	// scheduling point right after the spawn: the new thread may run first
	s.yield(op{kind: opResume, note: "after go"})
}

// Yield is an explicit scheduling point for harness-side code (sinks, sources, callbacks).
func Yield(label string) {
	s := cur
	if s == nil || s.aborting {
		return
	}
	s.yield(op{kind: opYield, note: label})
}

// Note records an externally observable action of the running thread (a user callback, a call
// on the user's reader/writer); it matters only if thread 0 has already returned.
func Note(what string) {
	s := cur
	if s == nil || s.aborting || s.cur == nil {
		return
	}
	if s.x.MainFinished && s.cur.id != 0 {
		s.x.AfterMain = append(s.x.AfterMain, what+" by "+s.cur.site)
	}
}

// ThreadID returns the id of the running controlled thread (-1 outside a run).
func ThreadID() int {
	if cur == nil || cur.cur == nil {
		return -1
	}
	return cur.cur.id
}

// ---- channels ----------------------------------------------------------------------------------

type chanCore struct {
	id     int
	ident  uint64 // (creator thread name, creator event count)
	site   string
	cap    int
	buf    []interface{}
	ids    []uint64 // identities of the buffered values
	closed bool
}

type identer interface{ vsIdent() uint64 }

func (c *Chan[T]) vsIdent() uint64 {
	if c == nil || c.core == nil {
		return 0
	}
	return c.core.ident
}

// valueIdent identifies a value travelling over a channel: a channel by its own identity,
// anything else by (sender, sender's event count) — both independent of the interleaving of
// other threads.
func valueIdent(v interface{}, sender *thread) uint64 {
	if v == nil {
		return 0
	}
	if i, ok := v.(identer); ok {
		return mix(i.vsIdent(), 0xC4)
	}
	return mix(mix(sender.name, sender.events), 0x5E)
}

type Chan[T any] struct{ core *chanCore }

func NewChan[T any](n int, site string) *Chan[T] {
	c := &chanCore{cap: n, site: site}
	if s := cur; s != nil {
		s.nchan++
		c.id = s.nchan
		if t := s.cur; t != nil {
			t.events++
			c.ident = mix(mix(t.name, t.events), 0xCA)
		}
		s.chans = append(s.chans, c)
	}
	return &Chan[T]{core: c}
}

func (c *Chan[T]) coreOrNil() *chanCore {
	if c == nil {
		return nil
	}
	return c.core
}

func need(what string) *Sched {
	s := cur
	if s == nil {
		panic("verifsched: " + what + " outside a controlled run")
	}
	return s
}

func (c *Chan[T]) Send(v T) {
	s := need("channel send")
	if s.aborting {
		return
	}
	core := c.coreOrNil()
	var iv interface{} = v
	vid := valueIdent(iv, s.cur)
	t := s.yield(op{kind: opSend, ch: core, val: v, valID: vid})
	if t.handed { // a receiver already took the value while this sender was blocked
		t.handed = false
		t.observe(opSend, core.ident, 0)
		return
	}
	if core.closed {
		panic("send on closed channel")
	}
	t.observe(opSend, core.ident, 0)
	if r := s.partner(core, opRecv, t); r != nil && len(core.buf) == 0 {
		r.handed, r.recvVal, r.recvOK, r.recvID = true, v, true, vid
		r.pending = op{kind: opRecv, ch: core, note: "handed"}
		return
	}
	core.buf = append(core.buf, v)
	core.ids = append(core.ids, vid)
}

func (c *Chan[T]) recv() (T, bool) {
	var zero T
	s := need("channel receive")
	if s.aborting {
		return zero, false
	}
	core := c.coreOrNil()
	t := s.yield(op{kind: opRecv, ch: core})
	if t.handed {
		t.handed = false
		v, ok := t.recvVal, t.recvOK
		t.recvVal = nil
		t.observe(opRecv, core.ident, t.recvID)
		if v == nil {
			return zero, ok
		}
		return v.(T), ok
	}
	if len(core.buf) > 0 {
		v := core.buf[0]
		core.buf = core.buf[1:]
		t.observe(opRecv, core.ident, core.ids[0])
		core.ids = core.ids[1:]
		// a sender blocked on the full buffer becomes enabled and appends its value itself
		if v == nil {
			return zero, true
		}
		return v.(T), true
	}
	if sd := s.partner(core, opSend, t); sd != nil && !core.closed {
		v := sd.pending.val
		t.observe(opRecv, core.ident, sd.pending.valID)
		sd.pending = op{kind: opResume, note: "send completed"}
		sd.handed = true
		if v == nil {
			return zero, true
		}
		return v.(T), true
	}
	if core.closed {
		t.observe(opRecv, core.ident, 0xC105ED)
		return zero, false
	}
	panic("verifsched: receive scheduled while not enabled")
}

func (c *Chan[T]) Recv() T { v, _ := c.recv(); return v }

func (c *Chan[T]) Recv2() (T, bool) { return c.recv() }

func (c *Chan[T]) Close() {
	s := need("channel close")
	if s.aborting {
		return
	}
	core := c.coreOrNil()
	s.yield(op{kind: opClose, ch: core})
	if core == nil {
		panic("close of nil channel")
	}
	if core.closed {
		panic("close of closed channel")
	}
	core.closed = true
	s.cur.observe(opClose, core.ident, 0)
}

func (c *Chan[T]) Cap() int {
	if c == nil {
		return 0
	}
	return c.core.cap
}

func (c *Chan[T]) Len() int {
	if c == nil {
		return 0
	}
	return len(c.core.buf)
}

// ---- mutexes, wait groups, once ----------------------------------------------------------------

type Mutex struct {
	locked  bool
	readers int
	version uint64 // hash of the histories of all previous holders at release time
	reg     bool
}

func (m *Mutex) Lock() {
	s := cur
	if s == nil {
		m.locked = true
		return
	}
	if s.aborting {
		return
	}
	t := s.yield(op{kind: opLock, mu: m})
	m.locked = true
	if !m.reg {
		m.reg = true
		s.mutexes = append(s.mutexes, m)
	}
	t.observe(opLock, 0, m.version)
}

func (m *Mutex) Unlock() {
	if cur != nil && cur.aborting {
		return
	}
	if !m.locked {
		panic("sync: unlock of unlocked mutex")
	}
	m.locked = false
	if s := cur; s != nil && s.cur != nil {
		m.version = mix(m.version, s.cur.hist)
	}
}

type RWMutex struct{ Mutex }

func (m *RWMutex) RLock() {
	s := cur
	if s == nil {
		m.readers++
		return
	}
	if s.aborting {
		return
	}
	s.yield(op{kind: opRLock, mu: &m.Mutex})
	m.readers++
}

func (m *RWMutex) RUnlock() {
	if cur != nil && cur.aborting {
		return
	}
	m.readers--
}

type WaitGroup struct{ n int }

func (w *WaitGroup) Add(d int) { w.n += d }
func (w *WaitGroup) Done()     { w.n-- }
func (w *WaitGroup) Wait() {
	s := cur
	if s == nil || s.aborting {
		return
	}
	s.yield(op{kind: opWait, wg: w})
}

type Once struct{ done bool }

func (o *Once) Do(f func()) {
	if !o.done {
		o.done = true
		f()
	}
}

