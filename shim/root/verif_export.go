//go:build verif

package lz4

import (
	"fmt"
	"reflect"
	"sort"
	"strings"
	"unsafe"

	"github.com/pierrec/lz4/v4/internal/lz4block"
	"github.com/pierrec/lz4/v4/internal/xxh32"
)

// Thin aliases and wrappers so that the verification harness (another module, barred from
// internal/) can reach the internals it compares against reference models.

type VerifXXH = xxh32.XXHZero

func VerifChecksumZero(b []byte) uint32 { return xxh32.ChecksumZero(b) }

func VerifDecodeNative(dst, src, dict []byte) int { return lz4block.VerifDecodeNative(dst, src, dict) }
func VerifDecodeGo(dst, src, dict []byte) int     { return lz4block.VerifDecodeGo(dst, src, dict) }

// VerifDump renders every field (exported or not) of the object graph rooted at x in a
// canonical form: pointers become allocation ordinals, byte slices become (len, cap-class,
// digest), funcs become nil/non-nil, channels become (nil?, cap, len). It is used only to
// merge states in the explicit-state search, never as an oracle.
func VerifDump(xs ...interface{}) string {
	d := &dumper{seen: map[uintptr]int{}}
	for _, x := range xs {
		d.val(reflect.ValueOf(x), 0)
		d.sb.WriteByte('\n')
	}
	return d.sb.String()
}

type dumper struct {
	sb   strings.Builder
	seen map[uintptr]int
}

func (d *dumper) val(v reflect.Value, depth int) {
	if depth > 12 {
		d.sb.WriteString("<deep>")
		return
	}
	if !v.IsValid() {
		d.sb.WriteString("<invalid>")
		return
	}
	if v.CanAddr() && !v.CanInterface() {
		v = reflect.NewAt(v.Type(), unsafe.Pointer(v.UnsafeAddr())).Elem()
	}
	switch v.Kind() {
	case reflect.Ptr:
		if v.IsNil() {
			d.sb.WriteString("nil")
			return
		}
		p := v.Pointer()
		if n, ok := d.seen[p]; ok {
			fmt.Fprintf(&d.sb, "&#%d", n)
			return
		}
		n := len(d.seen)
		d.seen[p] = n
		fmt.Fprintf(&d.sb, "&#%d=", n)
		d.val(v.Elem(), depth+1)
	case reflect.Struct:
		d.sb.WriteString(v.Type().Name())
		d.sb.WriteByte('{')
		if !v.CanAddr() {
			// make it addressable so unexported fields can be read
			c := reflect.New(v.Type()).Elem()
			c.Set(v)
			v = c
		}
		for i := 0; i < v.NumField(); i++ {
			d.sb.WriteString(v.Type().Field(i).Name)
			d.sb.WriteByte(':')
			d.val(v.Field(i), depth+1)
			d.sb.WriteByte(' ')
		}
		d.sb.WriteByte('}')
	case reflect.Slice:
		if v.IsNil() {
			d.sb.WriteString("nil[]")
			return
		}
		if v.Type().Elem().Kind() == reflect.Uint8 {
			b := v.Bytes()
			var h uint64 = 1469598103934665603
			for _, c := range b {
				h = (h ^ uint64(c)) * 1099511628211
			}
			fmt.Fprintf(&d.sb, "bytes(len=%d,cap=%d,h=%x)", len(b), v.Cap(), h)
			return
		}
		fmt.Fprintf(&d.sb, "[%d:", v.Len())
		for i := 0; i < v.Len(); i++ {
			d.val(v.Index(i), depth+1)
			d.sb.WriteByte(',')
		}
		d.sb.WriteByte(']')
	case reflect.Array:
		if v.Type().Elem().Kind() == reflect.Uint8 {
			fmt.Fprintf(&d.sb, "arr%x", v.Slice(0, v.Len()).Bytes())
			return
		}
		d.sb.WriteByte('[')
		for i := 0; i < v.Len(); i++ {
			d.val(v.Index(i), depth+1)
			d.sb.WriteByte(',')
		}
		d.sb.WriteByte(']')
	case reflect.Func:
		if v.IsNil() {
			d.sb.WriteString("func:nil")
		} else {
			d.sb.WriteString("func")
		}
	case reflect.Chan:
		if v.IsNil() {
			d.sb.WriteString("chan:nil")
		} else {
			fmt.Fprintf(&d.sb, "chan(cap=%d,len=%d)", v.Cap(), v.Len())
		}
	case reflect.Interface:
		if v.IsNil() {
			d.sb.WriteString("iface:nil")
			return
		}
		e := v.Elem()
		if err, ok := e.Interface().(error); ok {
			fmt.Fprintf(&d.sb, "err(%q)", err.Error())
			return
		}
		fmt.Fprintf(&d.sb, "iface(%s)", e.Type().String())
	case reflect.Map:
		keys := v.MapKeys()
		ss := make([]string, 0, len(keys))
		for _, k := range keys {
			ss = append(ss, fmt.Sprint(k))
		}
		sort.Strings(ss)
		fmt.Fprintf(&d.sb, "map%v", ss)
	case reflect.Bool:
		fmt.Fprintf(&d.sb, "%v", v.Bool())
	case reflect.Int, reflect.Int8, reflect.Int16, reflect.Int32, reflect.Int64:
		fmt.Fprintf(&d.sb, "%d", v.Int())
	case reflect.Uint, reflect.Uint8, reflect.Uint16, reflect.Uint32, reflect.Uint64, reflect.Uintptr:
		fmt.Fprintf(&d.sb, "%d", v.Uint())
	case reflect.String:
		fmt.Fprintf(&d.sb, "%q", v.String())
	default:
		fmt.Fprintf(&d.sb, "<%s>", v.Kind())
	}
}
