//go:build verif

package lz4block

// VerifDecodeNative calls the decoder selected by the build (assembly on amd64/arm/arm64,
// portable with -tags noasm) exactly as UncompressBlock does, returning its raw result.
func VerifDecodeNative(dst, src, dict []byte) int { return decodeBlock(dst, src, dict) }

// VerifDecodeGo calls the in-process copy of the portable decoder (generated from the
// working tree's decode_other.go on every build).
func VerifDecodeGo(dst, src, dict []byte) int { return decodeBlockGo(dst, src, dict) }
