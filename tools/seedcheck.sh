#!/bin/bash
# usage: seedcheck.sh <Cxx> <mN> <check> [check...]
# Confirms a sub-agent's seeded change (tests still pass, demo fails with it and passes without) in a
# scratch worktree and runs the given checks against it. Prints one summary line at the end.
export GOFLAGS=-mod=mod GOPROXY=off GOSUMDB=off GOTOOLCHAIN=local
id=$1; m=$2; shift 2
src=${SEEDBASE:-/tmp/seed}/$id/out/$m
[ -f "$src/patch.diff" ] || { echo "no patch in $src"; exit 2; }
wt=/tmp/mutwt/seed-$id-$m.$$
mkdir -p /tmp/mutwt
git -C /repo worktree add -q --detach "$wt" HEAD || exit 2
trap 'git -C /repo worktree remove --force "$wt" 2>/dev/null; rm -rf "$wt"' EXIT
mkdir -p "$wt/seedemo"; cp -r "$src"/* "$wt/seedemo/"; rm -f "$wt/seedemo/patch.diff" "$wt/seedemo/go.mod"
rundemo() {
  if ls "$wt"/seedemo/*_test.go >/dev/null 2>&1; then (cd "$wt" && timeout 600 go test -vet=off -count=1 ./seedemo/ >/dev/null 2>&1); return $?; fi
  if [ -d "$wt/seedemo/demo" ]; then (cd "$wt" && timeout 600 go run ./seedemo/demo >/dev/null 2>&1); return $?; fi
  if [ -f "$wt/seedemo/main.go" ]; then (cd "$wt" && timeout 600 go run ./seedemo >/dev/null 2>&1); return $?; fi
  return 99
}
rundemo; clean_rc=$?
git -C "$wt" apply "$src/patch.diff" || { echo "SUMMARY $id $m patch-does-not-apply"; exit 2; }
base=$(/verif/tools/baseline.sh "$wt" | head -1)
rundemo; mut_rc=$?
res=""
cd /verif
for c in "$@"; do
  out=$(VERIF_REPO=$wt VERIF_TIER=${VERIF_TIER:-quick} timeout 3000 ./vcheck "$c" 2>&1); rc=$?
  res="$res $c=$rc"
  echo "== $id/$m $c exit=$rc"; echo "$out" | grep -E "finding:|MACHINERY|failed|vcheck:" | cut -c1-260 | head -3
done
echo "SUMMARY $id $m demo_clean_rc=$clean_rc demo_mutant_rc=$mut_rc [$base] checks:$res"
