#!/bin/bash
# usage: stageasm.sh <worker-id> <nworkers> ; assembly-decoder mutants (INDEX.asm.txt): build, pinned
# suite, then the decoder checks (stops at the first that reports a violation)
export GOFLAGS=-mod=mod GOPROXY=off GOSUMDB=off GOTOOLCHAIN=local
id=$1; n=$2
wt=/tmp/msweep/aswt$id
git -C /repo worktree add -q --detach $wt HEAD 2>/dev/null
i=0
while read name props; do
  i=$((i+1)); [ $((i % n)) -eq $id ] || continue
  [ -z "$name" ] && continue
  git -C $wt checkout -q -- .
  git -C $wt apply /tmp/msweep/patches/$name.diff 2>/dev/null || { echo "$name noapply" >> /tmp/msweep/asm.$id; continue; }
  (cd $wt && go build ./... >/dev/null 2>&1 && go vet ./internal/lz4block >/dev/null 2>&1) || { echo "$name nobuild" >> /tmp/msweep/asm.$id; continue; }
  timeout 150 /verif/tools/baseline.sh $wt >/dev/null 2>&1 || { echo "$name killed-by-tests" >> /tmp/msweep/asm.$id; continue; }
  res=""; hit=""
  for c in $props; do
    out=$(cd ${VSNAP:-/verif} && VERIF_REPO=$wt VERIF_TIER=quick timeout 900 ./vcheck $c 2>&1); rc=$?
    res="$res $c=$rc"
    if [ $rc -eq 1 ]; then hit=$c; break; fi
  done
  if [ -n "$hit" ]; then echo "$name DETECTED by $hit ($res)" >> /tmp/msweep/asm.$id; else echo "$name UNDETECTED ($res)" >> /tmp/msweep/asm.$id; fi
done < /tmp/msweep/INDEX.asm.txt
git -C $wt checkout -q -- .
git -C /repo worktree remove --force $wt
echo "worker $id done" >> /tmp/msweep/asm.done
