#!/bin/bash
# usage: stage2.sh <worker-id> <nworkers> ; runs the checks mapped to the mutated file on every
# survivor of stage 1 (stops at the first check that reports a violation)
export GOFLAGS=-mod=mod GOPROXY=off GOSUMDB=off GOTOOLCHAIN=local
id=$1; n=$2
wt=/tmp/msweep/s2wt$id
git -C /repo worktree add -q --detach $wt HEAD 2>/dev/null
order() {
  case $1 in
    writer_*) echo "C17 C14 C09 C15" ;;
    reader_*) echo "C17 C16 C06 C05" ;;
    state_*) echo "C17 C15" ;;
    compressing_reader_*) echo "C18 C09" ;;
    internal_lz4stream_block_*) echo "C09 C06 C05 C17 C16 C15" ;;
    internal_lz4stream_frame_*) echo "C19 C06 C05 C09 C07 C17" ;;
    internal_lz4block_block_*) echo "C01 C10 C14" ;;
    internal_lz4block_decode_other_*) echo "C12 C03 C04" ;;
    internal_lz4block_blocks_*) echo "C09 C07" ;;
    internal_xxh32_*) echo "C13 C09" ;;
  esac
}
i=0
cat /tmp/msweep/todo.txt | while read name; do
  i=$((i+1)); [ $((i % n)) -eq $id ] || continue
  git -C $wt checkout -q -- .
  git -C $wt apply /tmp/msweep/patches/$name.diff || continue
  res=""
  hit=""
  for c in $(order $name); do
    out=$(cd ${VSNAP:-/verif} && VERIF_REPO=$wt VERIF_TIER=quick timeout 900 ./vcheck $c 2>&1); rc=$?
    res="$res $c=$rc"
    if [ $rc -eq 1 ]; then hit=$c; break; fi
  done
  if [ -n "$hit" ]; then echo "$name DETECTED by $hit ($res)" >> /tmp/msweep/${S2OUT:-stage2}.$id; else echo "$name UNDETECTED ($res)" >> /tmp/msweep/${S2OUT:-stage2}.$id; fi
done
git -C $wt checkout -q -- .
echo "worker $id done" >> /tmp/msweep/stage2.done
