#!/usr/bin/env python3
"""Generates single-edit mutants (relational flips, && <-> ||, small-constant +-1, dropped simple
statements) for the library's core files as patch files under /tmp/msweep/patches."""
import re,os,subprocess,sys,hashlib
REPO='/repo'
FILES={
 'writer.go':'C02 C08 C14 C15 C17 C09',
 'reader.go':'C02 C05 C06 C16 C17 C08',
 'state.go':'C17 C15 C02',
 'compressing_reader.go':'C18 C09',
 'internal/lz4stream/block.go':'C02 C05 C06 C08 C09 C15 C16 C17',
 'internal/lz4stream/frame.go':'C19 C05 C06 C07 C09 C17',
 'internal/lz4block/block.go':'C01 C10 C11 C14',
 'internal/lz4block/decode_other.go':'C03 C04 C12',
 'internal/lz4block/blocks.go':'C02 C07 C09',
 'internal/xxh32/xxh32zero.go':'C13 C09',
}
OPS=[(r'(?<![<>=!])<=(?!=)','<'),(r'(?<![<>=!-])<(?![<=-])','<='),(r'(?<![<>=!])>=(?!=)','>'),(r'(?<![<>=!-])>(?![>=])','>='),
     (r'==','!='),(r'!=','=='),(r'&&','||'),(r'\|\|','&&')]
out='/tmp/msweep/patches'; os.makedirs(out,exist_ok=True)
idx=[]
for f,props in FILES.items():
    path=os.path.join(REPO,f)
    lines=open(path).read().split('\n')
    infunc=False
    for ln,line in enumerate(lines):
        code=line.split('//')[0]
        st=code.strip()
        if not st or st.startswith(('import','package','"','*','/*')): continue
        if 'go:' in line: continue
        muts=[]
        for pat,rep in OPS:
            for m in re.finditer(pat,code):
                # skip inside string literals / channel arrows
                pre=code[:m.start()]
                if pre.count('"')%2==1 or pre.count('`')%2==1: continue
                if code[m.start()-1:m.start()+2] in ('<-',) or code[m.start():m.start()+2]=='<-': continue
                muts.append(code[:m.start()]+rep+code[m.end():])
        # small constants +-1 in conditions / slicing
        if re.search(r'\b(if|for|case)\b',code) or '[' in code:
            for m in re.finditer(r'(?<![\w.])(\d{1,5})(?![\w.xX])',code):
                v=int(m.group(1))
                if v>70000: continue
                pre=code[:m.start()]
                if pre.count('"')%2==1: continue
                for nv in (v+1,v-1):
                    if nv<0: continue
                    muts.append(code[:m.start()]+str(nv)+code[m.end():])
        # dropped simple statement
        if re.match(r'^\s+[\w.\[\]]+\s*(=|\+=|-=)\s*[^=].*$',code) and ':=' not in code and not st.endswith('{') :
            muts.append(re.match(r'^(\s*)',code).group(1)+'_ = 0')
        for mi,mc in enumerate(muts):
            if mc==code: continue
            new=lines[:]
            new[ln]=mc+(' //'+line.split('//',1)[1] if '//' in line else '')
            h=hashlib.sha1((f+str(ln)+mc).encode()).hexdigest()[:8]
            name=f.replace('/','_').replace('.go','')+'_L%d_%s'%(ln+1,h)
            open(path+'.mut','w').write('\n'.join(new))
            d=subprocess.run(['diff','-u','--label','a/'+f,'--label','b/'+f,path,path+'.mut'],capture_output=True,text=True).stdout
            os.remove(path+'.mut')
            if not d: continue
            open(os.path.join(out,name+'.diff'),'w').write(d)
            idx.append('%s %s'%(name,props))
open('/tmp/msweep/INDEX.txt','w').write('\n'.join(idx)+'\n')
print(len(idx),'mutants')
