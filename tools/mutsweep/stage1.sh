#!/bin/bash
# usage: stage1.sh <worker-id> <nworkers> ; filters mutants: must build and pass the pinned suite
export GOFLAGS=-mod=mod GOPROXY=off GOSUMDB=off GOTOOLCHAIN=local
id=$1; n=$2
wt=/tmp/msweep/wt$id
git -C /repo worktree add -q --detach $wt HEAD 2>/dev/null
i=0
while read name props; do
  i=$((i+1)); [ $((i % n)) -eq $id ] || continue
  [ -z "$name" ] && continue
  git -C $wt checkout -q -- . 
  if ! git -C $wt apply /tmp/msweep/patches/$name.diff 2>/dev/null; then echo "$name noapply" >> /tmp/msweep/stage1.$id; continue; fi
  if ! (cd $wt && go build ./... >/dev/null 2>&1); then echo "$name nobuild" >> /tmp/msweep/stage1.$id; continue; fi
  if timeout 150 /verif/tools/baseline.sh $wt >/dev/null 2>&1; then echo "$name SURVIVES $props" >> /tmp/msweep/stage1.$id; else echo "$name killed-by-tests" >> /tmp/msweep/stage1.$id; fi
done < /tmp/msweep/INDEX.txt
git -C $wt checkout -q -- .
echo "worker $id done" >> /tmp/msweep/stage1.done
