#!/usr/bin/env python3
"""Single-edit mutants of the amd64 assembly decoder: boundary flips of conditional jumps
(JA<->JAE, JB<->JBE, ...) and +-1 on immediates. Patches go to /tmp/msweep/patches, the list to
/tmp/msweep/INDEX.asm.txt."""
import re,os,subprocess,hashlib
REPO='/repo'; f='internal/lz4block/decode_amd64.s'
path=os.path.join(REPO,f)
lines=open(path).read().split('\n')
FLIP={'JA':'JAE','JAE':'JA','JB':'JBE','JBE':'JB','JHI':'JCC','JCC':'JHI','JLS':'JCS','JCS':'JLS','JGT':'JGE','JGE':'JGT','JLT':'JLE','JLE':'JLT','JEQ':'JNE','JNE':'JEQ','JZ':'JNZ','JNZ':'JZ'}
out='/tmp/msweep/patches'; os.makedirs(out,exist_ok=True)
idx=[]
for ln,line in enumerate(lines):
    code=line.split('//')[0]
    muts=[]
    m=re.match(r'^(\s+)(J[A-Z]+)(\s+.*)$',code)
    if m and m.group(2) in FLIP:
        muts.append(m.group(1)+FLIP[m.group(2)]+m.group(3))
    for m in re.finditer(r'\$(0x[0-9A-Fa-f]+|\d+)',code):
        v=int(m.group(1),0)
        for nv in (v+1,v-1):
            if nv<0: continue
            muts.append(code[:m.start()]+'$'+str(nv)+code[m.end():])
    for mc in muts:
        new=lines[:]; new[ln]=mc+(' //'+line.split('//',1)[1] if '//' in line else '')
        h=hashlib.sha1((f+str(ln)+mc).encode()).hexdigest()[:8]
        name='asm_L%d_%s'%(ln+1,h)
        open(path+'.mut','w').write('\n'.join(new))
        d=subprocess.run(['diff','-u','--label','a/'+f,'--label','b/'+f,path,path+'.mut'],capture_output=True,text=True).stdout
        os.remove(path+'.mut')
        if d:
            open(os.path.join(out,name+'.diff'),'w').write(d); idx.append(name+' C12 C03 C04 C16')
open('/tmp/msweep/INDEX.asm.txt','w').write('\n'.join(idx)+'\n')
print(len(idx),'asm mutants')
