#!/bin/bash
# usage: mutantwt.sh <patch.diff> <Cxx> [Cxx...]
# Applies the patch in a scratch worktree of /repo (under /tmp), runs the pinned test suite and the
# given checks against that worktree (VERIF_REPO), removes the worktree. /repo itself is untouched,
# so several of these can run in parallel.
p=$(readlink -f "$1"); shift
name=$(basename "$p" .diff)
wt=/tmp/mutwt/$name.$$
mkdir -p /tmp/mutwt
git -C /repo worktree add -q --detach "$wt" HEAD || exit 2
trap 'git -C /repo worktree remove --force "$wt" 2>/dev/null; rm -rf "$wt"' EXIT
git -C "$wt" apply "$p" || { echo "patch does not apply"; exit 2; }
if [ -n "${RUN_BASELINE:-}" ]; then /verif/tools/baseline.sh "$wt" | tail -4; fi
cd /verif
for c in "$@"; do
  out=$(VERIF_REPO=$wt VERIF_TIER=${VERIF_TIER:-quick} timeout 3000 ./vcheck "$c" 2>&1); rc=$?
  echo "== $name $c exit=$rc $(echo "$out" | grep -c '^VIOLATION') violation line(s)"
  echo "$out" | grep -E "finding:|MACHINERY|failed|vcheck:" | cut -c1-300 | head -4
done
