module verif/tools/rewrite

go 1.22.0

toolchain go1.23.5

require golang.org/x/tools v0.29.0
