// Command rewrite produces, for build flavour `sched`, mechanically rewritten copies of the
// non-test Go files of pierrec/lz4 (root, internal/lz4stream, internal/lz4block) in which every
// concurrency construct goes through the controlled scheduler (package verifsched):
//
//	chan T                     -> *verifsched.Chan[T]
//	make(chan T[, n])          -> verifsched.NewChan[T](n, "site")
//	c <- v, <-c, v, ok := <-c  -> c.Send(v), c.Recv(), c.Recv2()
//	for x := range c {B}       -> for { x, ok := c.Recv2(); if !ok { break }; B }
//	close(c), cap(c), len(c)   -> c.Close(), c.Cap(), c.Len()
//	go f(a, b)                 -> { t0, t1 := a, b; verifsched.Go("site", func() { f(t0, t1) }) }
//	sync.{Mutex,RWMutex,Pool,WaitGroup,Once} -> verifsched.{...}
//
// The rewrite is driven by go/types (not by names). It is run with cwd = /repo on the working
// tree; it writes the rewritten files and an overlay fragment to -out. Any concurrency construct
// it does not know (select, sync.Cond, ...) is a hard error (exit 2).
package main

import (
	"bytes"
	"encoding/json"
	"flag"
	"fmt"
	"go/ast"
	"go/build"
	"go/format"
	"go/importer"
	"go/parser"
	"go/token"
	"go/types"
	"os"
	"path/filepath"
	"strconv"
	"strings"

	"golang.org/x/tools/go/ast/astutil"
)

const schedPath = "github.com/pierrec/lz4/v4/verifsched"

var pkgs = []string{".", "internal/lz4stream", "internal/lz4block"}

func fatal(format string, a ...interface{}) {
	fmt.Fprintf(os.Stderr, "rewrite: "+format+"\n", a...)
	os.Exit(2)
}

func main() {
	out := flag.String("out", "", "output directory")
	flag.Parse()
	if *out == "" {
		fatal("-out required")
	}
	cwd, _ := os.Getwd()
	overlay := map[string]string{}
	ctx := build.Default
	ctx.BuildTags = []string{"verif"}
	for _, rel := range pkgs {
		dir := filepath.Join(cwd, rel)
		bp, err := ctx.ImportDir(dir, 0)
		if err != nil {
			fatal("%s: %v", rel, err)
		}
		fset := token.NewFileSet()
		var files []*ast.File
		var names []string
		for _, fn := range bp.GoFiles {
			if strings.HasPrefix(fn, "verif_") {
				continue // overlay-only files are not on disk
			}
			f, err := parser.ParseFile(fset, filepath.Join(dir, fn), nil, parser.ParseComments)
			if err != nil {
				fatal("%v", err)
			}
			files = append(files, f)
			names = append(names, fn)
		}
		info := &types.Info{Types: map[ast.Expr]types.TypeAndValue{}}
		conf := types.Config{Importer: importer.ForCompiler(fset, "source", nil), Error: func(error) {}}
		conf.Check(bp.ImportPath, fset, files, info)
		for i, f := range files {
			changed := rewriteFile(fset, f, info, filepath.Join(rel, names[i]))
			if !changed {
				continue
			}
			f.Comments = nil // comments would be re-attached at odd places around replaced nodes
			f.Doc = nil
			var buf bytes.Buffer
			if err := format.Node(&buf, fset, f); err != nil {
				fatal("%s: %v", names[i], err)
			}
			src := buf.String()
			// language version for this file only: generics need go1.18 (module says go 1.14);
			// loop-variable semantics do not change before go1.22.
			src = "//go:build go1.18\n\n" + stripBuildLines(src)
			dst := filepath.Join(*out, rel, names[i])
			os.MkdirAll(filepath.Dir(dst), 0o755)
			if err := os.WriteFile(dst, []byte(src), 0o644); err != nil {
				fatal("%v", err)
			}
			overlay[filepath.Join(dir, names[i])] = dst
		}
	}
	raw, _ := json.MarshalIndent(overlay, "", " ")
	if err := os.WriteFile(filepath.Join(*out, "overlay_entries.json"), raw, 0o644); err != nil {
		fatal("%v", err)
	}
	fmt.Fprintf(os.Stderr, "rewrite: %d file(s) rewritten\n", len(overlay))
}

// stripBuildLines removes existing build constraint lines (the rewritten files have been
// selected for this build already).
func stripBuildLines(src string) string {
	var out []string
	inHeader := true
	for _, l := range strings.Split(src, "\n") {
		if inHeader {
			if strings.HasPrefix(l, "//go:build") || strings.HasPrefix(l, "// +build") {
				continue
			}
			if strings.HasPrefix(l, "package ") {
				inHeader = false
			}
		}
		out = append(out, l)
	}
	return strings.Join(out, "\n")
}

func isChan(info *types.Info, e ast.Expr) bool {
	tv, ok := info.Types[e]
	if !ok || tv.Type == nil {
		return false
	}
	_, ok = tv.Type.Underlying().(*types.Chan)
	return ok
}

func sel(x, name string) *ast.SelectorExpr {
	return &ast.SelectorExpr{X: ast.NewIdent(x), Sel: ast.NewIdent(name)}
}

func method(recv ast.Expr, name string, args ...ast.Expr) *ast.CallExpr {
	return &ast.CallExpr{Fun: &ast.SelectorExpr{X: recv, Sel: ast.NewIdent(name)}, Args: args}
}

func site(fset *token.FileSet, rel string, pos token.Pos) ast.Expr {
	p := fset.Position(pos)
	return &ast.BasicLit{Kind: token.STRING, Value: strconv.Quote(fmt.Sprintf("%s:%d", rel, p.Line))}
}

func rewriteFile(fset *token.FileSet, f *ast.File, info *types.Info, rel string) bool {
	changed := false
	// pre-pass on the original tree: which builtin calls / range statements are over channels
	chanCall := map[*ast.CallExpr]bool{}
	chanRange := map[*ast.RangeStmt]bool{}
	ast.Inspect(f, func(n ast.Node) bool {
		switch x := n.(type) {
		case *ast.CallExpr:
			if id, ok := x.Fun.(*ast.Ident); ok && len(x.Args) == 1 && (id.Name == "close" || id.Name == "cap" || id.Name == "len") {
				if isChan(info, x.Args[0]) {
					chanCall[x] = true
				}
			}
		case *ast.RangeStmt:
			if isChan(info, x.X) {
				chanRange[x] = true
			}
		case *ast.SelectStmt:
			fatal("%s: select statement is not supported by the controlled scheduler", fset.Position(x.Pos()))
		case *ast.SelectorExpr:
			if id, ok := x.X.(*ast.Ident); ok && id.Name == "sync" {
				switch x.Sel.Name {
				case "Mutex", "RWMutex", "Pool", "WaitGroup", "Once":
				default:
					fatal("%s: sync.%s is not supported by the controlled scheduler", fset.Position(x.Pos()), x.Sel.Name)
				}
			}
		}
		return true
	})
	tmpN := 0
	astutil.Apply(f, nil, func(c *astutil.Cursor) bool {
		switch x := c.Node().(type) {
		case *ast.ChanType:
			changed = true
			c.Replace(&ast.StarExpr{X: &ast.IndexExpr{X: sel("verifsched", "Chan"), Index: x.Value}})
		case *ast.CallExpr:
			if id, ok := x.Fun.(*ast.Ident); ok {
				if id.Name == "make" && len(x.Args) >= 1 {
					// after post-order rewriting the chan type argument is already *verifsched.Chan[T]
					if st, ok := x.Args[0].(*ast.StarExpr); ok {
						if ix, ok := st.X.(*ast.IndexExpr); ok {
							if s, ok := ix.X.(*ast.SelectorExpr); ok && s.Sel.Name == "Chan" {
								var n ast.Expr = &ast.BasicLit{Kind: token.INT, Value: "0"}
								if len(x.Args) > 1 {
									n = x.Args[1]
								}
								changed = true
								c.Replace(&ast.CallExpr{
									Fun:  &ast.IndexExpr{X: sel("verifsched", "NewChan"), Index: ix.Index},
									Args: []ast.Expr{n, site(fset, rel, x.Pos())},
								})
								return true
							}
						}
					}
				}
				if chanCall[x] {
					changed = true
					name := map[string]string{"close": "Close", "cap": "Cap", "len": "Len"}[id.Name]
					c.Replace(method(x.Args[0], name))
				}
			}
		case *ast.SendStmt:
			changed = true
			c.Replace(&ast.ExprStmt{X: method(x.Chan, "Send", x.Value)})
		case *ast.UnaryExpr:
			if x.Op == token.ARROW {
				changed = true
				// v, ok := <-c  is handled at the assignment; here the single-value form
				if as, ok := c.Parent().(*ast.AssignStmt); ok && len(as.Lhs) == 2 && len(as.Rhs) == 1 {
					c.Replace(method(x.X, "Recv2"))
				} else if vs, ok := c.Parent().(*ast.ValueSpec); ok && len(vs.Names) == 2 && len(vs.Values) == 1 {
					c.Replace(method(x.X, "Recv2"))
				} else {
					c.Replace(method(x.X, "Recv"))
				}
			}
		case *ast.RangeStmt:
			if chanRange[x] {
				changed = true
				key := x.Key
				if key == nil {
					key = ast.NewIdent("_")
				}
				if x.Value != nil {
					fatal("%s: range over channel with two variables", fset.Position(x.Pos()))
				}
				tmpN++
				okName := fmt.Sprintf("verifOk%d", tmpN)
				tok := token.DEFINE
				if x.Tok == token.ASSIGN {
					// x = range c with pre-declared x: ok must still be declared
					fatal("%s: range over channel with '=' is not supported", fset.Position(x.Pos()))
				}
				recv := &ast.AssignStmt{Lhs: []ast.Expr{key, ast.NewIdent(okName)}, Tok: tok, Rhs: []ast.Expr{method(x.X, "Recv2")}}
				brk := &ast.IfStmt{Cond: &ast.UnaryExpr{Op: token.NOT, X: ast.NewIdent(okName)}, Body: &ast.BlockStmt{List: []ast.Stmt{&ast.BranchStmt{Tok: token.BREAK}}}}
				body := &ast.BlockStmt{List: append([]ast.Stmt{recv, brk}, x.Body.List...)}
				c.Replace(&ast.ForStmt{Body: body})
			}
		case *ast.GoStmt:
			changed = true
			call := x.Call
			var pre []ast.Stmt
			if len(call.Args) > 0 {
				var lhs []ast.Expr
				for range call.Args {
					tmpN++
					lhs = append(lhs, ast.NewIdent(fmt.Sprintf("verifArg%d", tmpN)))
				}
				pre = append(pre, &ast.AssignStmt{Lhs: lhs, Tok: token.DEFINE, Rhs: call.Args})
				call = &ast.CallExpr{Fun: call.Fun, Args: append([]ast.Expr(nil), lhs...), Ellipsis: call.Ellipsis}
			}
			thunk := &ast.FuncLit{Type: &ast.FuncType{Params: &ast.FieldList{}}, Body: &ast.BlockStmt{List: []ast.Stmt{&ast.ExprStmt{X: call}}}}
			spawn := &ast.ExprStmt{X: &ast.CallExpr{Fun: sel("verifsched", "Go"), Args: []ast.Expr{site(fset, rel, x.Pos()), thunk}}}
			c.Replace(&ast.BlockStmt{List: append(pre, spawn)})
		case *ast.SelectorExpr:
			if id, ok := x.X.(*ast.Ident); ok && id.Name == "sync" {
				changed = true
				c.Replace(sel("verifsched", x.Sel.Name))
			}
		}
		return true
	})
	if !changed {
		return false
	}
	// imports
	usesSync := false
	ast.Inspect(f, func(n ast.Node) bool {
		if s, ok := n.(*ast.SelectorExpr); ok {
			if id, ok := s.X.(*ast.Ident); ok && id.Name == "sync" {
				usesSync = true
			}
		}
		return true
	})
	if !usesSync {
		astutil.DeleteImport(fset, f, "sync")
	}
	astutil.AddImport(fset, f, schedPath)
	return true
}
