#!/usr/bin/env python3
"""Copies the confirmed seeded changes from /tmp/seed/<id>/out/<m> to /verif/seeded/<id>-<m>/ with a
meta.json built from the latest tools/seedcheck.sh SUMMARY line, and writes the DESIGN.md table."""
import os,re,json,shutil,glob,sys
needs=json.load(open('/verif/tools/seedneeds.json'))
manual=json.load(open('/verif/tools/seednotes.json'))
summ={}
for f in sorted(glob.glob('/verif/.build/seed-C*-m*.log'), key=os.path.getmtime):
    for l in open(f,errors='replace'):
        if l.startswith("SUMMARY"):
            p=l.split()
            summ[p[1]+"-"+p[2]]=l.strip()
os.makedirs('/verif/seeded',exist_ok=True)
rows=[]
for key in sorted(needs):
    pid,m=key.split('-')
    src=f'/tmp/seed/{pid}/out/{m}'
    dst=f'/verif/seeded/{key}'
    if os.path.isdir(src):
        if os.path.exists(dst): shutil.rmtree(dst)
        shutil.copytree(src,dst)
        for junk in glob.glob(dst+'/**/go.mod',recursive=True): os.remove(junk)
    patch=open(dst+'/patch.diff',errors='replace').read()
    files=sorted(set(re.findall(r'^\+\+\+ b/(.*)$',patch,re.M)))
    s=summ.get(key,"")
    old={}
    if os.path.exists(dst+'/meta.json') and not s:
        old=json.load(open(dst+'/meta.json'))
    checks=dict(re.findall(r'(C\d\d)=(\d)',s.split('checks:')[-1])) if s else old.get("check_exit_codes",{})
    meta={"id":key,"property":pid,"files_touched":files,"needs_to_manifest":needs[key],
          "confirmed_in_scratch_worktree":{"pinned_suite":"180/180 stable tests pass with the change","demo_without_change":"passes","demo_with_change":"fails"},
          "ran":"tools/seedcheck.sh %s %s %s"%(pid,m," ".join(checks)),
          "check_exit_codes":checks,
          "detected_by":[c for c,r in checks.items() if r=="1"],
          "note":manual.get(key,"")}
    json.dump(meta,open(dst+'/meta.json','w'),indent=1)
    rows.append((key,files,needs[key],meta["detected_by"],manual.get(key,"")))
out=["| seeded change | files | needs | detected by (exit 1) | note |","|---|---|---|---|---|"]
for k,f,n,d,note in rows:
    out.append("| %s | %s | %s | %s | %s |"%(k,", ".join(x.split('/')[-1] for x in f),n,", ".join(d),note))
open('/verif/.build/seedtable.md','w').write("\n".join(out)+"\n")
print(len(rows),"seeds saved")
