#!/bin/bash
# usage: mutant.sh <patch.diff> <Cxx> [Cxx...]   — applies the patch to /repo, runs the checks, reverts.
p=$(readlink -f "$1"); shift
cd /repo || exit 2
if ! git diff --quiet; then echo "repo has uncommitted changes"; exit 2; fi
git apply "$p" || { echo "patch does not apply"; exit 2; }
trap 'git -C /repo checkout -- . ' EXIT
if [ -n "${RUN_BASELINE:-}" ]; then /verif/tools/baseline.sh | tail -3; fi
cd /verif
for c in "$@"; do
  out=$(VERIF_TIER=${VERIF_TIER:-quick} ./vcheck "$c" 2>&1); rc=$?
  echo "== $c exit=$rc $(echo "$out" | grep -c '^VIOLATION') violation line(s)"
  echo "$out" | grep -E "finding:|MACHINERY|failed" | cut -c1-260 | head -5
done
