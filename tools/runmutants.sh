#!/bin/bash
# runs every mutant of mutants/INDEX.txt (or those given as args) against the checks listed for it
cd /verif
out=/verif/.build/mutants.log
: > $out
while read name props; do
  [ -z "$name" ] && continue
  if [ $# -gt 0 ] && ! echo " $* " | grep -q " $name "; then continue; fi
  echo "### $name [$props]" | tee -a $out
  RUN_BASELINE=1 timeout 3000 tools/mutant.sh mutants/$name.diff $props 2>&1 | tee -a $out
done < mutants/INDEX.txt
