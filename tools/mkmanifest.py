#!/usr/bin/env python3
"""Generates /verif/MANIFEST.json from the table below (one entry per property)."""
import json, sys
ALL = ["C%02d" % i for i in range(1, 21)]
# id -> (category, technique, text, note, design_ref)
CLAIMED = {
 "C19": ("exploration",
         "complete enumeration of the finite header space (2^24 headers + size variants + 2^17 first words) against a reference header rule",
         "Every one of the 2^16 descriptors x 256 checksum bytes is fed to ValidFrameHeader, and every descriptor x {correct,+1,^0x80} x 8 size values to a Reader; verdict and error class are compared with the header rule recomputed from the reference XXH32. The space is finite and enumerated completely, so within the stated subjects this is a decision, not a sample.",
         "Trusted: ref.XXH32. Version/reserved/dictionary-id bits are not judged (the statement does not name them).",
         "DESIGN.md §4 C19"),
}
PENDING_REASON = "check not built yet in this round (work in progress; see DESIGN.md §9 build order)"
NOT_APPLICABLE = {}

def main():
    checks = []
    for pid in ALL:
        if pid not in CLAIMED: continue
        cat, tech, text, note, ref = CLAIMED[pid]
        checks.append({
            "property_id": pid,
            "quick_cmd": f"VERIF_TIER=quick ./vcheck {pid}",
            "thorough_cmd": f"VERIF_TIER=thorough ./vcheck {pid}",
            "evidence_file": f"/verif/evidence/{pid}.json",
            "replay_cmd_template": "./vcheck --replay {path}",
            "engine": "vrun",
            "level_claimed": {"category": cat, "text": text, "design_ref": ref},
            "level_note": note,
            "technique": tech,
        })
    na = []
    for pid in ALL:
        if pid in CLAIMED: continue
        na.append({"property_id": pid, "reason": NOT_APPLICABLE.get(pid, PENDING_REASON)})
    m = {
        "version": 1,
        "setup_cmd": "./vcheck --setup",
        "hooks": {
            "guard": "verif",
            "enable": "go build -tags verif -overlay <generated>: every hook is a //go:build verif file added through a build overlay generated from /repo's working tree on each run (export shims, in-process copy of decode_other.go, and for flavour 'sched' mechanically rewritten copies of the three packages onto the controlled scheduler); nothing is committed to /repo",
            "baseline_off_cmd": "/verif/tools/baseline.sh",
            "source_commits": [],
            "add_only": True,
        },
        "engines": [
            {"name": "vrun", "path": "/verif/harness", "serves_properties": sorted(CLAIMED),
             "kind_free_text": "Go harness built against /repo through an overlay; bounded-exhaustive enumerators (E3), explicit-state search over call histories (E2) and a stateless schedule explorer over a controlled cooperative scheduler (E1); work sharded over worker processes"},
        ],
        "checks": checks,
        "not_applicable": na,
        "notes": "Exit codes: 0 held / only listed known findings, 1 VIOLATION, 2 machinery error. Known findings: /verif/known_findings.json.",
    }
    json.dump(m, open("/verif/MANIFEST.json", "w"), indent=1)
    print("claimed:", sorted(CLAIMED), "pending:", [x["property_id"] for x in na])

main()
