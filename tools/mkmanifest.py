#!/usr/bin/env python3
"""Generates /verif/MANIFEST.json from the table below (one entry per property)."""
import json, sys
ALL = ["C%02d" % i for i in range(1, 21)]
# id -> (category, technique, text, note, design_ref)
CLAIMED = {
 "C02": ("exploration",
         "grid enumeration: option grid x inputs relative to the block size x every subset of a cut-point alphabet as Write calls (with Flush subsets, empty writes) or ReadFrom under 49 fragmentation patterns, composed through the frame bytes with every read-back pattern (Reader concurrency x WriteTo / Read buffer-size cycles)",
         "Every (options, input, delivery) point produces a frame with the real Writer; every distinct frame is decoded by the real Reader under every read-back pattern and must give exactly the input followed by a clean end.",
         "Concurrent objects run free here (one schedule per case); the schedule axis is decided under the controlled scheduler in C08/C14. Inputs limited to the listed lengths/contents.",
         "DESIGN.md §4 C02"),
 "C05": ("fault_enumeration",
         "complete enumeration of mutations of base frames (every bit flip, structural byte substitutions, pairs of structural bit flips, block delete/duplicate/swap, splices) x reader configurations, acceptance compared with an independent frame parser run on the consumed bytes",
         "For every mutant and reader configuration: if the Reader ends cleanly, ref.Parse must accept exactly the bytes the Reader consumed and yield identical output. The base set covers every flag combination, raw/compressed/empty block mixes, dependent blocks, Writer-produced frames, legacy frames and a skippable prefix.",
         "Trusted: ref.Parse, lenient only on what the statement does not name. Multi-field coordinated corruption beyond two bit flips is out of scope.",
         "DESIGN.md §4 C05"),
 "C06": ("fault_enumeration",
         "every prefix (crash point) of every base frame x reader configurations",
         "Every cut position 1..len-1 of every base frame of at most 4 KiB (structural boundaries +-3 and a stride for longer ones) is read through Read (1, 7, 64K byte buffers) and WriteTo with concurrency 1 and 2: the outcome must be a non-clean error and the delivered bytes a prefix of the content (legacy: clean only on a block boundary).",
         "Interior cut positions of frames > 4 KiB are strided.",
         "DESIGN.md §4 C06"),
 "C07": ("fault_enumeration",
         "bounded-exhaustive enumeration of hostile streams (all byte strings up to length 2/3, all first words around the magics, grammar-built frames with hostile field values, long chains of skippable frames and legacy magics under a reduced stack limit, all C05 mutants) with termination, panic, crash and allocation-bound monitors",
         "Each stream is read with several concurrency settings through Read and WriteTo inside a worker process whose death (stack overflow, out of memory) is attributed to the exact case through a shared-memory breadcrumb; allocation volume is bounded for hostile size fields; non-magic words must give ErrInvalidFrame and skippable frames must skip exactly the announced bytes.",
         "Inputs longer than 3 bytes are structured, not arbitrary. Goroutine-level blocking under all schedules is decided in C08.",
         "DESIGN.md §4 C07"),
 "C09": ("exploration",
         "grid enumeration of emitted frames (option grid x inputs incl. zero-checksum and incompressible ones x deliveries) parsed by an independent strict implementation of the frame specification",
         "Every distinct frame the Writer (and the compressing reader) emits over the grid is accepted by ref.Parse in strict mode with nothing left over, decodes to the input, and its descriptor reflects the options.",
         "Trusted: ref.Parse/ref.Decode/ref.XXH32. For legacy frames delivered with an explicit Flush the 8-MiB-per-block rule is not applied (a Flush necessarily ends a block early).",
         "DESIGN.md §4 C09"),
 "C08": ("model_checking",
         "stateless model checking of the real pipeline code: controlled cooperative scheduler (channels, mutexes, pools, spawns rewritten onto it by a go/types-driven source rewriter), DFS over all choice sequences with iterative preemption bounding and state-key pruning; deadlock/leak/runaway/poison/order monitors on every execution",
         "Each closed scenario (writer call sequences incl. Flush, buffer-full hand-off, ReadFrom, reuse, OnBlockDone, sink failing at every call k; reader scenarios incl. corrupt block j, source failing at call k, checksum mismatch, missing end mark, legacy, reuse) is explored over every interleaving within the preemption bound (quick 2, fault families 1; thorough 3/2). A call that would block forever is a deadlock state, a goroutine left blocked is a leak state; released buffers are poisoned and audited; sink bytes must equal the sequential run's.",
         "Code between two visible operations runs atomically, so raw data races are seen only through their effects in some explored schedule. Bound on preemptions, blocks (<=3) and concurrency (<=3). The explorer must find a planted lost update and pass a locked counter on every run (self-test).",
         "DESIGN.md §2.2, §4 C08"),
 "C01": ("exploration",
         "bounded-exhaustive input enumeration (all strings over tiny alphabets up to a length bound, periodic sources, window-distance grid, large sources) x compressor configurations, decoded by an independent reference decoder and both real decoders",
         "Every enumerated source is compressed by every compressor configuration (fast / HC at several depths; package function, fresh and reused object) into a destination of exactly the bound and of bound+7 with spare capacity, and the block is decoded by ref.Decode, UncompressBlock and the portable decoder. Exhaustive within the stated alphabets and grids.",
         "Trusted: ref.Decode. Coverage statement over the listed alphabets/grids/lengths, not over all byte slices up to 4 MiB.",
         "DESIGN.md §4 C01"),
 "C03": ("exploration",
         "bounded-exhaustive enumeration of (src, len(dst), dict) triples (all short byte strings, all derivations of the block grammar over boundary classes, wide-copy placement grid, all truncations/substitutions) run on both decoders under guard-page placements with canaries",
         "Each triple runs on the assembly and the portable decoder with src/dst/dict flush against PROT_NONE guard pages (both ends, two placements) and canaries in spare capacity; a fault, panic, canary damage, n>len(dst) or a crashed worker is a violation. The -tags noasm build runs the same stream.",
         "Guard pages detect accesses past the flush end at byte granularity only on that end; the other end is covered by the second placement. Inputs longer than the grammar/grids are not covered.",
         "DESIGN.md §4 C03"),
 "C04": ("exploration",
         "same bounded-exhaustive triple enumeration as C03, each result compared with an independent reference decoder of the block format (incl. dictionary resolution), two destination pre-fills",
         "For every enumerated triple the reference decoder defines the expected bytes or the error class; both real decoders must return exactly those bytes/length or an error, identically for two different prior contents of dst.",
         "Trusted: ref.Decode. Blocks ending right after a match and empty blocks are treated as unspecified.",
         "DESIGN.md §4 C04"),
 "C10": ("exploration",
         "bounded-exhaustive source enumeration as C01 plus destination sizes below the bound; every emitted block checked by a strict validator of the end-of-block and offset rules and decoded by the reference decoder",
         "Every block any compressor configuration emits for the enumerated sources (including partial successes with dst < bound) must satisfy ref.ValidateStrict (offsets 1..65535 within the output, final sequence literals-only, last 5 bytes literals, last match >= 12 bytes before the end) and decode to the source.",
         "Trusted: ref.ValidateStrict / ref.Decode. Coverage statement over the listed sources.",
         "DESIGN.md §4 C10"),
 "C11": ("exploration",
         "bounded-exhaustive enumeration of sources x every destination length 0..bound+2 (short sources) or boundary lengths x spare capacities {0,1,64} with canaries on both sides",
         "For each (source, destination geometry, compressor): no panic, canaries intact, n <= len(dst), success whenever len(dst) >= bound, and any positive n decodes (reference decoder) to the whole source.",
         "Trusted: ref.Decode. Reads outside src are not monitored (Go bounds checks turn them into panics, which are caught).",
         "DESIGN.md §4 C11"),
 "C12": ("exploration",
         "same bounded-exhaustive triple enumeration as C03/C04; assembly and portable results compared case by case in one process, plus a per-shard digest of the whole case stream compared between the default build and the genuine -tags noasm build",
         "For every enumerated triple the assembly decoder and an in-process copy of the working tree's portable decoder must agree on success/error, length and bytes; the -tags noasm binary replays the identical case stream and its digest must equal the in-process copy's (so the copy cannot hide a difference).",
         "Only amd64 assembly is exercised on this host (arm/arm64 assembly cannot run here).",
         "DESIGN.md §4 C12"),
 "C13": ("model_checking",
         "explicit-state search over call histories (Write(k)/Sum32/Reset, depth 3 quick / 4 thorough, no merging) of the real streaming hasher from initial and injected near-2^32 states with a reference hasher in lock-step; plus a real 4 GiB+k stream",
         "All histories up to the depth bound over a 28-symbol alphabet that reaches every (buffered bytes 0..15, next write length) pair are executed on the real hasher from three start states; Sum32, Sum and one-shot ChecksumZero are compared with the reference after every call. Totals around 2^32 are reached both by state injection and by a real 4 GiB stream.",
         "Trusted: ref.XXH (checked against published vectors on every run). Byte values from two patterns only.",
         "DESIGN.md §4 C13"),
 "C19": ("exploration",
         "complete enumeration of the finite header space (2^24 headers + size variants + 2^17 first words) against a reference header rule",
         "Every one of the 2^16 descriptors x 256 checksum bytes is fed to ValidFrameHeader, and every descriptor x {correct,+1,^0x80} x 8 size values to a Reader; verdict and error class are compared with the header rule recomputed from the reference XXH32. The space is finite and enumerated completely, so within the stated subjects this is a decision, not a sample.",
         "Trusted: ref.XXH32. Version/reserved/dictionary-id bits are not judged (the statement does not name them).",
         "DESIGN.md §4 C19"),
}
PENDING_REASON = "check not built yet in this round (work in progress; see DESIGN.md §9 build order)"
NOT_APPLICABLE = {}

def main():
    checks = []
    for pid in ALL:
        if pid not in CLAIMED: continue
        cat, tech, text, note, ref = CLAIMED[pid]
        checks.append({
            "property_id": pid,
            "quick_cmd": f"VERIF_TIER=quick ./vcheck {pid}",
            "thorough_cmd": f"VERIF_TIER=thorough ./vcheck {pid}",
            "evidence_file": f"/verif/evidence/{pid}.json",
            "replay_cmd_template": "./vcheck --replay {path}",
            "engine": "vrun",
            "level_claimed": {"category": cat, "text": text, "design_ref": ref},
            "level_note": note,
            "technique": tech,
        })
    na = []
    for pid in ALL:
        if pid in CLAIMED: continue
        na.append({"property_id": pid, "reason": NOT_APPLICABLE.get(pid, PENDING_REASON)})
    m = {
        "version": 1,
        "setup_cmd": "./vcheck --setup",
        "hooks": {
            "guard": "verif",
            "enable": "go build -tags verif -overlay <generated>: every hook is a //go:build verif file added through a build overlay generated from /repo's working tree on each run (export shims, in-process copy of decode_other.go, and for flavour 'sched' mechanically rewritten copies of the three packages onto the controlled scheduler); nothing is committed to /repo",
            "baseline_off_cmd": "/verif/tools/baseline.sh",
            "source_commits": [],
            "add_only": True,
        },
        "engines": [
            {"name": "vrun", "path": "/verif/harness", "serves_properties": sorted(CLAIMED),
             "kind_free_text": "Go harness built against /repo through an overlay; bounded-exhaustive enumerators (E3), explicit-state search over call histories (E2) and a stateless schedule explorer over a controlled cooperative scheduler (E1); work sharded over worker processes"},
        ],
        "checks": checks,
        "not_applicable": na,
        "notes": "Exit codes: 0 held / only listed known findings, 1 VIOLATION, 2 machinery error. Known findings: /verif/known_findings.json.",
    }
    json.dump(m, open("/verif/MANIFEST.json", "w"), indent=1)
    print("claimed:", sorted(CLAIMED), "pending:", [x["property_id"] for x in na])

main()
