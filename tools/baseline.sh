#!/bin/bash
# Runs the repository's pinned test suite with the verif guard OFF (no tag, no overlay) and
# checks that every test of BASELINE.json's stable_pass list passes.
export GOFLAGS=-mod=mod GOPROXY=off GOSUMDB=off GOTOOLCHAIN=local
command -v lz4 >/dev/null 2>&1 || export PATH=$PATH:/root/miniconda/bin  # TestWriterLegacyCommand skips without the lz4 CLI
REPO=${1:-/repo}
cd "$REPO" || exit 2
GOMAXPROCS=8 go test -json -vet=off -count=1 -timeout 25m ./... > /verif/.build/baseline.$$.json 2>/dev/null
python3 - /verif/.build/baseline.$$.json <<'PY'
import json,sys
passed=set()
for l in open(sys.argv[1]):
    try: e=json.loads(l)
    except: continue
    if e.get("Action")=="pass" and e.get("Test"):
        passed.add(e["Package"]+"::"+e["Test"])
base=json.load(open("/root/.vp/BASELINE.json"))["stable_pass"]
missing=[t for t in base if t not in passed]
print(f"baseline: {len(base)-len(missing)}/{len(base)} stable tests pass")
for m in missing[:20]: print("  MISSING:",m)
sys.exit(1 if missing else 0)
PY
rc=$?
rm -f /verif/.build/baseline.$$.json
exit $rc
